"""C14 Equivalent ways of stating the same customisation give identical output.

Proof: lean/ShroudVerif/Props/C14.lean over Model/Scope.lean (+ regenerated Gen/Cli.lean).
Tie (D): real util.Scope / ast node construction / Parser.attribute / main_with_args option merge
         vs the Lean driver drv_scope.
Oracle: byte comparison of complete output directories of pairs of equivalent descriptions
        (implementation only).
"""
import collections
import contextlib
import copy
import io
import json
import os
import re
import subprocess
import sys

import yaml

from tools import common, shroudrun, extract_cli, extract_optreads

LEVEL = "proof"
_PHASES = collections.OrderedDict()
_T = [0.0]


def _guard(ctx, name, fn, *a, **k):
    """A part of the harness must not take the check down when the code under test misbehaves in a way the harness did
    not foresee: record it as a broken tie and go on (the other oracles still look for a concrete failing input)."""
    import traceback
    try:
        return fn(*a, **k)
    except KeyboardInterrupt:
        raise
    except Exception:
        ctx.tie_broken("harness-exception:" + name, traceback.format_exc()[-1500:])
        return None


def _phase(name):
    import time
    now = time.time()
    if _T[0]:
        _PHASES[_PHASES.get("_cur", "start")] = round(_PHASES.get(_PHASES.get("_cur", "start"), 0) + now - _T[0], 1)
    _PHASES["_cur"] = name
    _T[0] = now


MANIFEST = dict(
    category="proof",
    text="Lean 4, 48 theorems, none _partial, over Model/Scope.lean, Model/ScopeExt.lean and three regenerated tables. "
         "(1) Lexical scoping, for all trees, positions, keys and values: lookup = nearest enclosing definition; the heap model of "
         "util.Scope (with clone/reparent/cycles) agrees with the chain model; writing k:v on a container (namespace, class, block, at any "
         "path) and writing it on every contained function without a nearer definition give every function the same lookups while "
         "functions outside keep their chains literally (container_eq_members, container_eq_each_member, sibling_unaffected). "
         "ClassNode.clone (class template instantiation: clone the class scope, clone every function and re-attach it through memoised "
         "clones of its block scopes) is modelled on the heap; proved: it only appends scopes, keeps every existing local dictionary and "
         "every existing parent link except that of the scope being re-attached (rehome_frame); that the re-attached chains are the "
         "right ones is NOT proved, it is tied to the real ClassNode.clone by differential testing (chains compared as scope ids). "
         "(2) A block without options is transparent at any position, and a block appends to its parent's list in order. "
         "(3) Parser.attribute on +k, +k(balanced tokens), +k=scalar equals attrs.update(entries) for every attribute list and every "
         "split between declaration text and attrs/fattrs; the later entry wins. "
         "A format field written directly under format: equals the same value given through its template option, post-processing "
         "(lower-casing of F_module_name) included, for the library order and the namespace order of default_format "
         "(library_format_eq_template, namespace_format_vs_template; the pre-fix namespace order is shown to violate it). "
         "(4) --option/--language: coercion (true/True/false/False, digit strings, text), the merge equals the same fields written in "
         "the YAML file (with or without an options: entry), crash sites (no '=', empty options:). "
         "(5) FunctionNode.__init__ (Model/ScopeExt.lean fnInit): the attrs:/fattrs: groups merged into the parsed declaration and the "
         "per-fortran_generic copies of the parameter list. For every parameter list, group and list of generic declarations: with "
         "mappings under every name the node equals the node built from the declaration whose attribute dictionaries already hold the "
         "group's entries after the inline ones and no groups (fn_attrs_block_eq_inline; inlined_is_inline_text links that to the "
         "declaration text a++b through attrs_split); an absent group = an empty group; every generic variant holds, for an argument it "
         "does not redeclare, the parameter AFTER the merge (fn_attrs_generic_sees_merged); the construction raises iff some "
         "parameter's entry is not a mapping, naming the first such parameter. "
         "(6) LibraryNode.__init__ option scope (defaults, update, literalinclude -> literalinclude2 promotion): the scope built from "
         "the merged command line is the one built from the YAML file with the same fields (library_options_cli_eq_yaml[_absent]); the "
         "promotion looks at the merged value wherever it came from; other keys keep the merged value. "
         "(7) search path over an abstract file system (pathJoin = os.path.join, resolve = the for/else loop): first directory holding "
         "the file wins, not found iff no directory holds it, search of a++b, soundness, no --path = ./name, absolute names. "
         "Table theorems (decide over data regenerated from the working tree on every run): create_wrapper assigns every field "
         "main_with_args reads, each a pass-through parameter or the parser default; --path/--option are argparse append fields whose "
         "default is [] so the search path of `--path P..` equals create_wrapper(path=[P..]); main.Config holds no class-level mutable "
         "attribute and creates its lists/dict per instance; in the table of every syntactic option/format read of shroud/*.py no "
         "function-scoped option (and no explicitly read function-scoped format field) is read through a library-level owner expression "
         "(allow list empty), and no value read from a function-scoped option/format field is stored in an attribute of a pass or wrapper "
         "object (cached across declarations), and inside a loop over .namespaces / .classes every read of a namespace- / class-scoped "
         "option is made on the loop variable's own scope (member_options_read_from_member). "
         "Ties on every run through the compiled driver drv_scope: util.Scope operation programs incl. the real ClassNode.clone (on format scopes and "
         "on option scopes; a scope shared instead of cloned is reported), real FunctionNode construction through "
         "create_library_from_dictionary on generated declarations x attrs/fattrs groups (incl. non-mapping entries, unknown names) x 0-3 "
         "fortran_generic variants vs fnInit (op fa), the option scope of the library built by the real main_with_args vs libOptions (op "
         "lo), the splicer file read by the real main_with_args on generated directory trees / path spellings (colon lists, trailing "
         "slash, ./, empty component, absolute, directory of the same name) vs splicerFile over the set of existing files (op sp), real node construction "
         "(create_library_from_dictionary, blocks nested in blocks/classes/namespaces) vs build/views, Parser.attribute on real token "
         "streams, the real main_with_args merge; node construction must hand the user's description back unchanged (the model's "
         "constructors are pure); the Scope read trace validates the static read table and the function-scoped baseline. "
         "Implementation-only oracle: byte comparison of complete output directories for pairs of equivalent descriptions (option/format "
         "and wrap_* on container vs members at every placement (libraries always hold a class template with a block and a class with cpp_if), locality (a setting on one namespace leaves the sibling's files as in "
         "the base run and gives its own files as with the setting on the library; integer options included), one mapping shared through "
         "YAML aliases vs copies, every eval_template field (harvested from ast.py) written under format: vs through its template option "
         "on library/namespace/class nodes, namespace-/class-scoped options on the library or a namespace vs on every namespace/class "
         "inside, sibling, empty block, every accepted attribute name inline vs "
         "attrs/fattrs on functions/methods/constructors/arguments, every option of default_options given with --option vs in the YAML file "
         "compared on the library node's complete option scope and wrap flags (then on outputs), options/format fields of one "
         "class-template instantiation vs the C files of the other instantiations (every position), generated option values YAML vs real command line incl. the case where the command line overrides other values and "
         "the other language written in the file, --path with stale "
         "look-alike files, create_wrapper once and in sequences vs fresh command-line runs).",
    design="3 C14",
    note="Trusted: Lean kernel (axioms propext, Classical.choice, Quot.sound only); the hand-written model, validated on generated "
         "operation sequences, descriptions and token streams only; tools/extract_cli.py and tools/extract_optreads.py (AST scans; the "
         "read table resolves local aliases, eval_template and scope parameters, validated against the run-time trace: 0 of 99 traced "
         "options inconsistent; format fields consumed through template strings are NOT in the static table, 71 of 320 traced fields "
         "have an explicit read). That every consumer reads the right scope is therefore proof only in the static/syntactic sense for "
         "options and exploration (oracle) for outputs. The chain model (views) takes node dictionaries with unique keys; its link to "
         "the heap builder is checked per generated tree, not proved. Not modelled: keys _Scope__parent/_Scope__hidden (name-mangled slots of util.Scope: an "
         "option of that name would overwrite the parent link; no option or format field has such a name), "
         "flatten_namespace list sharing, non-ASCII digits in --option; in the FunctionNode model the declarator is an opaque number and "
         "None-valued attribute entries are dropped (Declaration.attrs is a defaultdict); the file system of the search-path model is "
         "the set of joined names the OS reports as regular files; which consumers read the merged attributes is oracle only. The JSON debug dump is excluded from "
         "container/member comparisons (it records where an option was written). Open finding, by design: format field "
         "function_suffix on a container of overloaded functions is replaced by the automatic _0/_1 numbering ('set unless local', the "
         "same rule as eval_template), because an inherited suffix would name all overloads alike; it is replayed from corpus/c14.txt "
         "and reported as KNOWN-FINDING. Five defects found by this check were repaired in /repo (create_wrapper fields, block in a "
         "class, constructors in a block, attrs with fortran_generic, block options in a class template, cpp_if of a class for functions "
         "in a block, lower-casing of a namespace's F_module_name given under format:). A failure of the code under test inside a tie or "
         "oracle is recorded as a result or a broken tie; it does not end the check with exit 2.",
    technique="Lean 4 proof by induction over chains/trees/token lists + regenerated tables (decide) + differential correspondence through a "
              "compiled driver + run-time read tracing + metamorphic byte comparison of outputs",
)
MODULES = ["ShroudVerif.Props.C14", "ShroudVerif.Props.C14Ext"]
THEOREMS = {
    "ShroudVerif.Props.C14": [
        "Shroud.Scope.lookup_nearest",
        "Shroud.Scope.lookup_none_iff",
        "Shroud.Scope.look_found_iff_chain",
        "Shroud.Scope.rehome_frame",
        "Shroud.Scope.container_eq_members",
        "Shroud.Scope.container_eq_each_member",
        "Shroud.Scope.sibling_unaffected",
        "Shroud.Scope.empty_frame_transparent",
        "Shroud.Scope.empty_block_transparent",
        "Shroud.Scope.block_appends_to_parent",
        "Shroud.Scope.inline_eq_update",
        "Shroud.Scope.inline_eq_attrs",
        "Shroud.Scope.attrs_split",
        "Shroud.Scope.merged_value",
        "Shroud.Scope.coerce_spellings",
        "Shroud.Scope.coerce_other",
        "Shroud.Scope.coerce_digits",
        "Shroud.Scope.cmdOptions_pairs",
        "Shroud.Scope.cli_eq_yaml",
        "Shroud.Scope.cli_eq_yaml_absent",
        "Shroud.Scope.cli_lookup",
        "Shroud.Scope.cli_crash_sites",
        "Shroud.Scope.create_wrapper_matches_parser",
        "Shroud.Scope.config_no_shared_state",
        "Shroud.Scope.cli_path_eq_create_wrapper",
        "Shroud.Scope.function_scoped_not_read_at_library_level",
        "Shroud.Scope.function_scoped_not_cached_across_declarations",
        "Shroud.Scope.member_options_read_from_member",
        "Shroud.Scope.library_format_eq_template",
        "Shroud.Scope.namespace_format_vs_template",
    ],
    "ShroudVerif.Props.C14Ext": [
        "Shroud.Scope.mergeParams_allDicts",
        "Shroud.Scope.fn_attrs_block_eq_inline",
        "Shroud.Scope.fn_attrs_absent_eq_empty",
        "Shroud.Scope.inlined_is_inline_text",
        "Shroud.Scope.applyGeneric_keeps",
        "Shroud.Scope.fn_attrs_generic_sees_merged",
        "Shroud.Scope.fn_attrs_raises_iff",
        "Shroud.Scope.fn_attrs_raises_first",
        "Shroud.Scope.library_options_cli_eq_yaml",
        "Shroud.Scope.library_options_cli_eq_yaml_absent",
        "Shroud.Scope.literalinclude_promotion",
        "Shroud.Scope.library_options_other_key",
        "Shroud.Scope.resolve_first",
        "Shroud.Scope.resolve_none_iff",
        "Shroud.Scope.resolve_append",
        "Shroud.Scope.resolve_sound",
        "Shroud.Scope.splicer_default_cwd",
        "Shroud.Scope.pathJoin_relative",
    ],
}

TRACE_QUICK = ["tutorial", "classes", "strings", "pointers-cxx", "vectors", "namespace", "templates", "struct-cxx"]


# =====================================================================================
# (D1) util.Scope vs model on random operation sequences
# =====================================================================================
def gen_scope_program(r, n_ops):
    """Returns list of op strings.  Scope ids are predicted (creation order)."""
    ops = []
    n = 0
    keys = list(range(1, 7))

    def kw():
        m = r.randrange(0, 4)
        ks = r.sample(keys, m)
        return ",".join("%d=%d" % (k, r.randrange(0, 50)) for k in ks) if ks else "-"

    ops.append("new:N:" + kw()); n += 1
    for _ in range(n_ops):
        c = r.random()
        i = r.randrange(n)
        k = r.choice(keys)
        if c < 0.14:
            p = "N" if r.random() < 0.15 else str(r.randrange(n))
            ops.append("new:%s:%s" % (p, kw())); n += 1
        elif c < 0.30:
            ops.append("get:%d:%d" % (i, k))
        elif c < 0.36:
            ops.append("has:%d:%d" % (i, k))
        elif c < 0.42:
            ops.append("getd:%d:%d:%d" % (i, k, r.randrange(50, 60)))
        elif c < 0.52:
            ops.append("set:%d:%d:%d" % (i, k, r.randrange(0, 50)))
        elif c < 0.58:
            ops.append("sd:%d:%d:%d" % (i, k, r.randrange(0, 50)))
        elif c < 0.68:
            ops.append("up:%d:%d:%s" % (i, r.randrange(2), kw()))
        elif c < 0.74:
            ops.append("loc:%d:%d" % (i, k))
        elif c < 0.79:
            ks = r.sample(keys, r.randrange(0, 3))
            ops.append("del:%d:%s" % (i, ",".join(map(str, ks)) if ks else "-"))
        elif c < 0.85:
            ops.append("cl:%d" % i); n += 1
        elif c < 0.90:
            # reparent; mostly towards an older scope (acyclic), sometimes anything (cycles)
            if r.random() < 0.8:
                p = "N" if (i == 0 or r.random() < 0.1) else str(r.randrange(i))
            else:
                p = str(r.randrange(n))
            ops.append("rp:%d:%s" % (i, p))
        elif c < 0.95:
            ops.append("sul:%d:%d:%d" % (i, k, r.randrange(0, 50)))
        else:
            ops.append("dict:%d" % i)
    for i in range(n):
        ops.append("dict:%d" % i)
    if r.random() < 0.3:
        # ClassNode.clone as the last op: a class scope, functions below it directly or through one or two block
        # scopes (some sharing a block), sometimes a function that hangs elsewhere
        cls = r.randrange(n)
        fns, blocks = [], []
        for _f in range(r.randrange(1, 4)):
            par = cls
            if blocks and r.random() < 0.4:
                par = r.choice(blocks)
            for _b in range(r.randrange(0, 3)):
                ops.append("new:%d:%s" % (par, kw())); par = n; blocks.append(n); n += 1
            ops.append("new:%s:%s" % (par if r.random() < 0.9 else r.randrange(n), kw())); fns.append(n); n += 1
        ops.append("cc:%d:%s" % (cls, ",".join(map(str, fns))))
    return ops


def _pairs(s):
    if s == "-":
        return {}
    return collections.OrderedDict((("k%s" % kv.split("=")[0]), int(kv.split("=")[1])) for kv in s.split(","))


class _Timeout(Exception):
    pass


def real_scope_program(ops):
    """Guarded by an alarm: a Scope that loops for ever is reported as a broken tie, not as a hang."""
    import signal

    def onalarm(signum, frame):
        raise _Timeout()
    old = signal.signal(signal.SIGALRM, onalarm)
    signal.alarm(5)
    try:
        return _real_scope_program(ops)
    except _Timeout:
        return "timeout"
    finally:
        signal.alarm(0)
        signal.signal(signal.SIGALRM, old)


def _real_clone_class(S, cls, fns):
    """the real ast.ClassNode.clone on a class whose fmtdict (even cls) or options scope (odd cls) is S[cls] and whose
    functions' scopes of that kind are S[f]; the real code treats both kinds alike and the model has one cloneClass.
    New scopes are numbered in creation order; result: new ids and, per new function, its parent chain as ids.
    A 'new' scope that is an existing one (shared instead of cloned) is reported as dup<id>."""
    from shroud import util, ast
    flags = dict(wrap_fortran=False, wrap_c=False, wrap_python=False, wrap_lua=False)
    as_options = (cls % 2 == 1)
    node = ast.ClassNode.__new__(ast.ClassNode)
    if as_options:
        node.options = S[cls]
        node.fmtdict = util.Scope(None)
    else:
        node.fmtdict = S[cls]
        node.options = util.Scope(None, **flags)
    node.scope_file = []
    node.functions = []
    for f in fns:
        fn = ast.FunctionNode.__new__(ast.FunctionNode)
        if as_options:
            fn.options = S[f]
            fn.fmtdict = util.Scope(node.fmtdict)
        else:
            fn.fmtdict = S[f]
            fn.options = util.Scope(node.options)
        fn.ast = None
        fn._fmtargs = {}
        fn._fmtresult = {}
        node.functions.append(fn)
    saved_wf = ast.WrapFlags
    try:
        if as_options:
            # the generated scopes hold no wrap_* options (WrapFlags is not the subject of this tie)
            ast.WrapFlags = lambda options: None
        new = node.clone()
    finally:
        ast.WrapFlags = saved_wf
    pick = (lambda x: x.options) if as_options else (lambda x: x.fmtdict)
    known = {id(x): i for i, x in enumerate(S)}

    def reg(x):
        if id(x) in known:
            return "dup%d" % known[id(x)]
        known[id(x)] = len(S)
        S.append(x)
        return len(S) - 1
    ncls = reg(pick(new))
    nfs = []
    for fn in new.functions:
        nfs.append(reg(pick(fn)))
        p = pick(fn).get_parent()
        steps = 0
        while p is not None and id(p) not in known and steps < 50:
            reg(p)
            p = p.get_parent()
            steps += 1
    chains = []
    for fn in new.functions:
        ch, p, steps = [], pick(fn).get_parent(), 0
        while p is not None and steps < 12:
            ch.append(str(known.get(id(p), "?")))
            p = p.get_parent()
            steps += 1
        chains.append(",".join(ch) if ch else "-")
    return "%s;%s|%s" % (ncls, ",".join(map(str, nfs)), "|".join(chains))


def _real_scope_program(ops):
    from shroud import util, ast
    S = []
    out = []

    def par(p):
        return None if p == "N" else S[int(p)]

    for op in ops:
        f = op.split(":")
        try:
            if f[0] == "new":
                S.append(util.Scope(par(f[1]), **_pairs(f[2]))); out.append(str(len(S) - 1))
            elif f[0] == "get":
                try:
                    out.append("F%d" % getattr(S[int(f[1])], "k" + f[2]))
                except AttributeError:
                    out.append("M")
            elif f[0] == "has":
                out.append("T" if ("k" + f[2]) in S[int(f[1])] else "F")
            elif f[0] == "getd":
                out.append("F%d" % S[int(f[1])].get("k" + f[2], int(f[3])))
            elif f[0] == "set":
                setattr(S[int(f[1])], "k" + f[2], int(f[3])); out.append("ok")
            elif f[0] == "sd":
                out.append(str(S[int(f[1])].setdefault("k" + f[2], int(f[3]))))
            elif f[0] == "up":
                S[int(f[1])].update(_pairs(f[3]), replace=(f[2] == "1")); out.append("ok")
            elif f[0] == "loc":
                out.append("T" if S[int(f[1])].inlocal("k" + f[2]) else "F")
            elif f[0] == "del":
                S[int(f[1])].delattrs([] if f[2] == "-" else ["k" + x for x in f[2].split(",")]); out.append("ok")
            elif f[0] == "cl":
                S.append(S[int(f[1])].clone()); out.append(str(len(S) - 1))
            elif f[0] == "rp":
                S[int(f[1])].reparent(par(f[2])); out.append("ok")
            elif f[0] == "sul":
                # eval_template: "if a format has not been explicitly set, set from template"
                node = ast.AstNode()
                node.fmtdict = S[int(f[1])]
                node.options = {"k%s_template" % f[2]: f[3]}
                node.eval_template("k" + f[2])
                # the template text is the number; store it as the model does
                d = S[int(f[1])].__dict__
                if isinstance(d.get("k" + f[2]), str):
                    d["k" + f[2]] = int(d["k" + f[2]])
                out.append("ok")
            elif f[0] == "cc":
                out.append(_real_clone_class(S, int(f[1]), [int(x) for x in f[2].split(",")]))
            elif f[0] == "dict":
                d = S[int(f[1])]._to_dict()
                out.append(",".join("%s=%d" % (k[1:], v) for k, v in d.items()) if d else "-")
        except RecursionError:
            out.append("R")
        except _Timeout:
            raise
        except Exception as e:      # the code under test failed: a result to compare, never a harness failure
            out.append("X:" + type(e).__name__)
    return " ".join(out)


# =====================================================================================
# (D2) real node construction vs model scope trees
# =====================================================================================
POOL_FREE = [
    "void {n}()",
    "int {n}(int a, double b)",
    "const std::string & {n}(const std::string & name)",
    "void {n}(const char *s)",
    "bool {n}(bool flag)",
    "double {n}(double *v +intent(in)+rank(1), int nv)",
    "void {n}(int *out +intent(out))",
    "int {n}(int a, int b = 1)",
    "const char * {n}()",
    "void {n}(char *s +intent(out)+charlen(20))",
    "void {n}(std::vector<int> &arg +intent(in))",
    "int * {n}() +dimension(3)",
    "void {n}(int *arr +intent(inout)+dimension(n), int n)",
    "int {n}(const int *values +dimension(..), int nvalues)",
]


def gen_tree(r, synthetic=True, maxdepth=3):
    """Random declaration tree as nested python structure:
    ('fn', name, opts, fmt, decl) | ('ns'|'cls'|'block', name, opts, fmt, [children])"""
    counter = [0]

    def opts():
        if not synthetic:
            return {}, {}
        o = {"zq%d" % k: r.randrange(1, 90) for k in r.sample(range(1, 5), r.randrange(0, 3))}
        f = {"zq%d" % k: r.randrange(1, 90) for k in r.sample(range(1, 5), r.randrange(0, 3))}
        return o, f

    TIE_ATTRS = {"int {n}(int a, double b)": {"attrs": {"a": {"value": True}, "b": {"value": True}}},
                 "bool {n}(bool flag)": {"attrs": {"flag": {"value": True}}, "fattrs": {"pure": True}},
                 "void {n}(int *out +intent(out))": {"attrs": {"out": {"intent": "out"}}},
                 "const char * {n}()": {"fattrs": {"len": 30}}}

    def fn(inclass):
        counter[0] += 1
        o, f = opts()
        decl = r.choice(POOL_FREE[:9] if inclass else POOL_FREE)
        if decl in TIE_ATTRS and r.random() < 0.6:
            return ("fn", "f%d" % counter[0], o, f, decl, copy.deepcopy(TIE_ATTRS[decl]))
        return ("fn", "f%d" % counter[0], o, f, decl)

    def scope(kind, depth, inclass):
        counter[0] += 1
        o, f = opts()
        kids = []
        for _ in range(r.randrange(1, 4)):
            c = r.random()
            if depth < maxdepth and c < 0.18 and not inclass and kind != "block_in_class":
                kids.append(scope("ns", depth + 1, False))
            elif depth < maxdepth and c < 0.36 and not inclass:
                kids.append(scope("cls", depth + 1, True))
            elif depth < maxdepth and c < 0.52:
                kids.append(scope("block", depth + 1, inclass))
            else:
                kids.append(fn(inclass))
        name = {"ns": "N%d", "cls": "C%d", "block": "B%d"}[kind] % counter[0]
        return (kind, name, o, f, kids)

    top = []
    for _ in range(r.randrange(2, 5)):
        c = r.random()
        if c < 0.2:
            top.append(scope("ns", 1, False))
        elif c < 0.45:
            top.append(scope("cls", 1, True))
        elif c < 0.6:
            top.append(scope("block", 1, False))
        else:
            top.append(fn(False))
    return top


def tree_to_yaml_decls(items):
    out = []
    for it in items:
        kind, name, o, f = it[0], it[1], it[2], it[3]
        d = collections.OrderedDict()
        if kind == "fn":
            d["decl"] = it[4].format(n=name)
        elif kind == "ns":
            d["decl"] = "namespace " + name
        elif kind == "cls":
            if len(it) > 5 and it[5].get("template"):
                d["decl"] = "template<typename T> class " + name
                d["cxx_template"] = [{"instantiation": "<int>"}, {"instantiation": "<double>"}]
            else:
                d["decl"] = "class " + name
            if len(it) > 5:
                for k_, v_ in it[5].items():
                    if k_ != "template":
                        d[k_] = v_
        else:
            d["block"] = True
        if it[0] == "fn":
            for extra in it[5:]:
                d.update(extra)
        if o:
            d["options"] = o if isinstance(o, dict) else dict(o)
        if f:
            d["format"] = f if isinstance(f, dict) else dict(f)
        if kind != "fn":
            d["declarations"] = tree_to_yaml_decls(it[4])
        out.append(d)
    return out


def _zq(d):
    return [(int(k[2:]), v) for k, v in d.items() if k.startswith("zq")]


def _encp(pairs):
    return ",".join("%d=%d" % kv for kv in pairs) if pairs else "-"


def tree_to_model(items, which):
    toks = []
    for it in items:
        d = it[2] if which == "o" else it[3]
        if it[0] == "fn":
            toks.append("F:%s:%s" % (it[1][1:], _encp(_zq(d))))
        else:
            toks.append("S:%s:%s" % (it[0], _encp(_zq(d))))
            toks += tree_to_model(it[4], which)
            toks.append("E")
    return toks


@contextlib.contextmanager
def record_nodes():
    from shroud import ast
    created = []
    saved = {}
    for cls in (ast.FunctionNode, ast.ClassNode, ast.NamespaceNode, ast.BlockNode):
        saved[cls] = cls.__init__

        def make(orig, cls=cls):
            def init(self, *a, **k):
                orig(self, *a, **k)
                created.append(self)
            return init
        cls.__init__ = make(cls.__init__)
    orig_add = ast.add_declarations
    depth = [0]

    def add_declarations(parent, node):
        if depth[0] == 0:
            del created[:]      # nodes made by LibraryNode.__init__ itself (namespace std) are not declarations
        depth[0] += 1
        try:
            return orig_add(parent, node)
        finally:
            depth[0] -= 1
    ast.add_declarations = add_declarations
    try:
        yield created
    finally:
        ast.add_declarations = orig_add
        for cls, f in saved.items():
            cls.__init__ = f


def real_tree(items, topo, topf):
    """Build with the real constructors; canonical text as the driver prints it (options, format)."""
    from shroud import ast, typemap
    desc = {"library": "tt", "cxx_header": "tt.hpp", "options": dict(topo), "format": dict(topf),
            "declarations": tree_to_yaml_decls(items)}
    typemap.initialize()
    buf = io.StringIO()
    inp = copy.deepcopy(desc)
    with record_nodes() as created, contextlib.redirect_stdout(buf):
        lib = ast.create_library_from_dictionary(inp)
    # the model's constructors are pure functions of the description: the user's mappings must come back unchanged
    mutated = inp["declarations"] != desc["declarations"]
    res = []
    qs = [1, 2, 3, 4]
    for which in ("options", "fmtdict"):
        nodes = ["s:" + _encp(_zq(topo if which == "options" else topf))]
        fns = []
        for n in created:
            sc = getattr(n, which)
            isf = isinstance(n, ast.FunctionNode)
            nodes.append(("f:" if isf else "s:") + _encp(_zq(sc._to_dict())))
            if isf:
                fns.append(",".join(str(sc.get("zq%d" % k, "-")) for k in qs))
        res.append(" ".join(nodes) + " | " + " ".join(fns) + (" | INPUT-DESCRIPTION-MUTATED" if mutated else ""))
    order = [n.ast.name for n in lib.functions]
    return res, order


# =====================================================================================
# (D3) Parser.attribute vs model
# =====================================================================================
ATTR_PIECES = ["+intent(in)", "+value", "+rank=2", "+rank(1)", "+dimension(n,m)", "+dimension(size(x)+1)", "+len=30",
               "+name(new)", "+pure", "+x=1.5", "+s=\"ab c\"", "+t='q'", "+u=abc", "+w=", "+deref(allocatable)",
               "+intent(out", "+", "+(", "+a()", "+a(())", "+a((b)c)", " ", ",", ")", "=3", "+b=)", "+c=+d", "+e=int",
               "+f(1.0e3,\"s\")", "+value+value", "+g(a b  c)", "+const"]


def gen_attr_text(r):
    return "".join(r.choice(ATTR_PIECES) for _ in range(r.randrange(0, 5)))


def _enc_aval(v):
    if v is True:
        return "T"
    if v is None:
        return "N"
    if isinstance(v, bool):
        return "?"
    if isinstance(v, int):
        return "i:" + str(v)
    if isinstance(v, float):
        return "f:" + repr(v)
    return "s:" + common.enc(v)


def real_attribute(text):
    from shroud import declast
    toks = list(declast.tokenize(text))
    p = declast.Parser(text, None)
    attrs = collections.OrderedDict()
    try:
        p.attribute(attrs)
    except RuntimeError:
        return toks, "error"
    # tokens left: current token + what the tokenizer still holds
    left = 0 if p.token.typ == "EOF" else 1 + len(list(p.tokenizer))
    body = ";".join("%s=%s" % (common.enc(k), _enc_aval(v)) for k, v in attrs.items()) if attrs else "~"
    return toks, "ok %s %d" % (body, left)


def canon_model_attr(line):
    """model prints int/float as text; canonicalise like Python's int()/float()"""
    if not line.startswith("ok ") or line.split(" ")[1] == "~":
        return line
    _, body, left = line.split(" ")
    out = []
    for kv in body.split(";"):
        k, v = kv.split("=")
        if v.startswith("i:"):
            v = "i:" + str(int(common.dec(v[2:])))
        elif v.startswith("f:"):
            v = "f:" + repr(float(common.dec(v[2:])))
        out.append(k + "=" + v)
    return "ok %s %s" % (";".join(out), left)


# =====================================================================================
# (D4) --option / --language merge vs model
# =====================================================================================
def _enc_cval(v):
    if isinstance(v, bool):
        return "b:%d" % v
    if isinstance(v, int):
        return "i:%d" % v
    return "s:" + common.enc(v)


class _Captured(Exception):
    pass


def real_merge(scr, yopts, ylang, opts, lang):
    """yopts: 'A' | 'Z' | dict.  Runs main_with_args up to create_library_from_dictionary."""
    from shroud import main as smain
    doc = collections.OrderedDict(library="tt")
    if yopts == "Z":
        doc["options"] = None
    elif yopts != "A":
        doc["options"] = dict(yopts)
    if ylang is not None:
        doc["language"] = ylang
    path = shroudrun.write_yaml(scr, "m.yaml", yaml.safe_dump(dict(doc), default_flow_style=False, sort_keys=False))
    args = shroudrun.make_args([path], scr, options=opts, language=lang)
    got = {}

    def capture(node):
        got["node"] = node
        raise _Captured()

    saved = smain.ast.create_library_from_dictionary
    smain.ast.create_library_from_dictionary = capture
    buf = io.StringIO()
    try:
        with contextlib.redirect_stdout(buf):
            smain.main_with_args(args)
    except _Captured:
        pass
    except (Exception, SystemExit) as e:
        return "crash " + type(e).__name__
    finally:
        smain.ast.create_library_from_dictionary = saved
    if "node" not in got:
        return "crash no-library-created"
    node = got["node"]
    if "options" not in node:
        o = "A"
    elif node["options"] is None:
        o = "Z"
    else:
        items = [(k, v) for k, v in node["options"].items() if k != "__line__"]
        o = "D" + (";".join("%s=%s" % (common.enc(k), _enc_cval(v))
                            for k, v in items) if items else "~")
    l = node.get("language")
    return "ok %s %s" % (o, "N" if l is None else common.enc(l))


def enc_yopts(y):
    if y in ("A", "Z"):
        return y
    return "D" + (";".join("%s=%s" % (common.enc(k), _enc_cval(v))
                           for k, v in y.items()) if y else "~")


# =====================================================================================
# measurement: from which node kind is each option / format field read?
# =====================================================================================
class ScopeTracer:
    def __init__(self):
        from shroud import util
        self.util = util
        self.depth = [0]
        self.log = []
        self.keep = {}
        self.methods = {n for n in dir(util.Scope) if not n.startswith("__")}

    def __enter__(self):
        util = self.util
        self.orig_getattr = util.Scope.__getattr__
        depth, log, keep = self.depth, self.log, self.keep
        orig = self.orig_getattr

        def ga(s, name):
            depth[0] += 1
            try:
                return orig(s, name)
            finally:
                depth[0] -= 1

        def gattribute(s, name):
            if depth[0] == 0 and name[:1] != "_":
                log.append((id(s), name))
                keep[id(s)] = s
            return object.__getattribute__(s, name)

        util.Scope.__getattr__ = ga
        util.Scope.__getattribute__ = gattribute
        return self

    def __exit__(self, *a):
        self.util.Scope.__getattr__ = self.orig_getattr
        del self.util.Scope.__getattribute__

    def classify(self, lib, res_o, res_f, local_f):
        from shroud import util
        self.depth[0] += 1
        try:
            ko, kf = {}, {}

            def fn(f):
                ko[id(f.options)] = "function"
                kf[id(f.fmtdict)] = "function"
                local_f.update(k for k in f.fmtdict._to_dict())
                for d in list(f._fmtargs.values()) + [f._fmtresult]:
                    for v in d.values():
                        if isinstance(v, util.Scope):
                            kf[id(v)] = "arg"

            def walk(n, kind):
                ko[id(n.options)] = kind
                kf[id(n.fmtdict)] = kind
                if kind != "library":
                    local_f.update(k for k in n.fmtdict._to_dict())
                for f in n.functions:
                    fn(f)
                for c in n.classes:
                    walk(c, "class")
                for s in getattr(n, "namespaces", []):
                    walk(s, "namespace")
                for grp, nm in ((n.enums, "enum"), (n.variables, "variable"), (n.typedefs, "typedef")):
                    for e in grp:
                        if hasattr(e, "options"):
                            ko[id(e.options)] = nm
                            kf[id(e.fmtdict)] = nm

            walk(lib, "library")
            libopts = set(lib.options._to_dict())
            for i, n in self.log:
                if n in self.methods:
                    continue
                if i in ko:
                    res_o[n][ko[i]] += 1
                elif i in kf:
                    res_f[n][kf[i]] += 1
                elif n in libopts:
                    res_o[n]["other"] += 1
                else:
                    res_f[n]["other"] += 1
        finally:
            self.depth[0] -= 1
        del self.log[:]
        self.keep.clear()


def load_baseline():
    cpath = os.path.join(common.CORPUS, "c14.txt")
    o, f = [], []
    if os.path.exists(cpath):
        for ln in open(cpath):
            ln = ln.strip()
            if ln.startswith("{"):
                rec = json.loads(ln)
                if rec.get("type") == "baseline":
                    o += rec.get("function_scoped_options", [])
                    f += rec.get("function_scoped_format_fields", [])
    return sorted(set(o)), sorted(set(f))


def measure_scopes(names):
    """Run corpus configurations under the tracer.  Returns (res_o, res_f, local_f, lib_defaults_o, lib_defaults_f)."""
    from shroud import main as smain
    res_o = collections.defaultdict(collections.Counter)
    res_f = collections.defaultdict(collections.Counter)
    local_f = set()
    libs = []
    orig_gen = smain.generate.generate_functions

    def gen(lib, cfg):
        libs.append(lib)
        return orig_gen(lib, cfg)

    smain.generate.generate_functions = gen
    defaults_o, defaults_f = {}, {}
    try:
        with ScopeTracer() as tr:
            for name in names:
                d = common.scratch()
                try:
                    del libs[:]
                    cfg, exc, _ = shroudrun.run_corpus_inproc(name, d)
                    if libs:
                        tr.classify(libs[0], res_o, res_f, local_f)
                        tr.depth[0] += 1
                        if not defaults_f:
                            defaults_f.update(libs[0].fmtdict._to_dict())
                        tr.depth[0] -= 1
                finally:
                    common.rmtree(d)
    finally:
        smain.generate.generate_functions = orig_gen
    from shroud import ast
    lib0 = ast.LibraryNode.__new__(ast.LibraryNode)
    defaults_o = lib0.default_options()._to_dict()
    return res_o, res_f, local_f, defaults_o, defaults_f


def alt_value(name, default):
    """A different, still sensible value for an option / format field (None: cannot vary)."""
    if isinstance(default, bool):
        return not default
    if name == "return_scalar_pointer":
        return "scalar"
    if isinstance(default, str) and name.endswith("_template") and default:
        return default + "_z"
    if isinstance(default, int):
        return {"F_assumed_rank_min": 1, "F_assumed_rank_max": 2}.get(name, default + 1)
    return None


# =====================================================================================
# oracle: pairs of equivalent descriptions -> byte comparison of the complete outputs
# =====================================================================================
def lib_doc(r, name="eqv", python=True, simple=False):
    """A small generated library: two classes X, Y (siblings), a namespace, blocks, free functions.
    simple: free functions only, nested two and three scopes deep (namespace > block, namespace > namespace)."""
    cnt = [0]

    def fn(pool):
        cnt[0] += 1
        return ("fn", "f%d" % cnt[0], {}, {}, r.choice(pool))

    if simple == "minimal":
        pool = ["void {n}()", "int {n}(int a, double b)", "bool {n}(bool flag)"]
        items = [("ns", "outer", {}, {}, [fn(pool), ("block", "B1", {}, {}, [fn(pool)]), ("ns", "deep", {}, {}, [fn(pool)])]),
                 fn(pool)]
        opts = {"debug_testsuite": True, "wrap_python": False, "wrap_lua": False}
        return {"library": name, "cxx_header": name + ".hpp", "options": opts, "format": {}, "tree": items}
    if simple:
        pool = POOL_FREE[:10]
        items = [("ns", "outer", {}, {}, [("block", "B1", {}, {}, [fn(pool), fn(pool)]),
                                          ("ns", "deep", {}, {}, [fn(pool), ("block", "B2", {}, {}, [fn(pool)])]),
                                          fn(pool)]),
                 ("block", "B3", {}, {}, [("block", "B4", {}, {}, [fn(pool)]), fn(pool)]),
                 fn(pool)]
        opts = {"debug_testsuite": True, "wrap_python": python, "wrap_lua": False}
        return {"library": name, "cxx_header": name + ".hpp", "options": opts, "format": {}, "tree": items}

    meth = POOL_FREE[:9]
    X = ("cls", "Xc", {}, {}, [fn(meth) for _ in range(r.randrange(1, 3))] +
         [("block", "Bx", {}, {}, [fn(meth)])])
    Y = ("cls", "Yc", {}, {}, [fn(meth) for _ in range(r.randrange(1, 3))])
    NS = ("ns", "inner", {}, {}, [fn(POOL_FREE) for _ in range(r.randrange(1, 3))] +
          ([("cls", "Zc", {}, {}, [fn(meth)])] if r.random() < 0.5 else []))
    BL = ("block", "Bt", {}, {}, [fn(POOL_FREE) for _ in range(r.randrange(1, 3))])
    cnt[0] += 3
    T = ("cls", "Tc", {}, {}, [("fn", "t%d" % cnt[0], {}, {}, "Tc()"),
                               ("block", "Btc", {}, {}, [("fn", "push%d" % cnt[0], {}, {}, "void {n}(const T &value)"), fn(meth)]),
                               ("fn", "at%d" % cnt[0], {}, {}, "T {n}(int n)")], {"template": True})
    G = ("cls", "Gc", {}, {}, [("fn", "g%d" % cnt[0], {}, {}, "Gc()"), ("fn", "h%d" % cnt[0], {}, {}, "Gc(int a)"), fn(meth)],
         {"cpp_if": "ifdef HAVE_GC"})
    items = [X, Y, NS, BL, T, G] + [fn(POOL_FREE) for _ in range(r.randrange(1, 3))]
    r.shuffle(items)
    opts = {"debug_testsuite": True, "wrap_python": python, "wrap_lua": False}
    return {"library": name, "cxx_header": name + ".hpp", "options": opts, "format": {}, "tree": items}


def doc_yaml(doc):
    d = collections.OrderedDict()
    for k in ("library", "cxx_header", "language"):
        if k in doc:
            d[k] = doc[k]
    if doc.get("options"):
        d["options"] = dict(doc["options"])
    if doc.get("format"):
        d["format"] = dict(doc["format"])
    d["declarations"] = tree_to_yaml_decls(doc["tree"])
    if doc.get("expand_aliases"):
        return yaml.dump(json.loads(json.dumps(_plain(d))), default_flow_style=False, sort_keys=False)
    return yaml.dump(_plain(d), default_flow_style=False, sort_keys=False)


def _plain(x, memo=None):
    """plain dict/list copy that PRESERVES object sharing: a mapping used twice in the description is written once
    with a YAML anchor and referred to by an alias, as a user would."""
    if memo is None:
        memo = {}
    if isinstance(x, (dict, list)) and id(x) in memo:
        return memo[id(x)]
    if isinstance(x, dict):
        out = {}
        memo[id(x)] = out
        for k, v in x.items():
            out[k] = _plain(v, memo)
        return out
    if isinstance(x, list):
        out = []
        memo[id(x)] = out
        out.extend(_plain(v, memo) for v in x)
        return out
    return x


def share_equal_dicts(doc):
    """Variant of a description in which equal options / format / attrs / fattrs mappings of different declarations are
    ONE object (YAML anchor + aliases).  Returns (doc, number of aliases made)."""
    pool = {}
    count = [0]

    def share(d):
        if not isinstance(d, dict) or not d:
            return d
        key = json.dumps(d, sort_keys=True, default=str)
        if key in pool:
            count[0] += 1
            return pool[key]
        pool[key] = d
        return d

    def f(it, p):
        it = it[:2] + (share(it[2]), share(it[3])) + tuple(it[4:])
        if it[0] == "fn" and len(it) > 5:
            ex = dict(it[5])
            for k in ("attrs", "fattrs"):
                if k in ex:
                    ex[k] = share(ex[k])
            it = it[:5] + (ex,) + tuple(it[6:])
        return it
    out = dict(doc)
    out["tree"] = map_tree(doc["tree"], f)
    return out, count[0]


def map_tree(items, f, path=()):
    """Rebuild a tree applying f(item, path) -> item (children handled here)."""
    out = []
    for idx, it in enumerate(items):
        p = path + (idx,)
        it2 = f(it, p)
        if it2[0] != "fn":
            it2 = it2[:4] + (map_tree(it2[4], f, p),) + it2[5:]
        out.append(it2)
    return out


def _node_at(items, path):
    it = items[path[0]]
    return it if len(path) == 1 else _node_at(it[4], path[1:])


def containers(items, path=()):
    for idx, it in enumerate(items):
        p = path + (idx,)
        if it[0] != "fn":
            yield p, it
            for x in containers(it[4], p):
                yield x


def set_on(items, target, field, key, val):
    """field: 2 = options, 3 = format.  Set on the node at path `target`."""
    def f(it, p):
        if p == target:
            d = dict(it[field]); d[key] = val
            return it[:field] + (d,) + it[field + 1:]
        return it
    return map_tree(items, f)


def set_on_kind(items, target, field, key, val, kind):
    """Set on every node of `kind` ('ns' / 'cls') below `target` (everywhere when target == ()) that has no nearer definition."""
    def walk(lst, path, inside, shadowed):
        out = []
        for idx, it in enumerate(lst):
            p = path + (idx,)
            ins = inside or p == target
            if it[0] != "fn":
                sh = shadowed or (inside and key in it[field])
                if it[0] == kind and inside and not shadowed and key not in it[field]:
                    d = dict(it[field]); d[key] = val
                    it = it[:field] + (d,) + it[field + 1:]
                    sh = True      # nested nodes inherit from this one
                it = it[:4] + (walk(it[4], p, ins, sh),) + tuple(it[5:])
            out.append(it)
        return out
    return walk(items, (), target == (), False)


def set_on_members(items, target, field, key, val):
    """Set on every function below `target` (all functions when target == ()) that has no nearer definition of
    `key`: a function that sets it itself, or sits in an intermediate container that does, keeps what it sees."""
    def walk(lst, path, inside, shadowed):
        out = []
        for idx, it in enumerate(lst):
            p = path + (idx,)
            ins = inside or p == target
            if it[0] == "fn":
                if inside and not shadowed and key not in it[field]:
                    d = dict(it[field]); d[key] = val
                    it = it[:field] + (d,) + it[field + 1:]
            else:
                sh = shadowed or (inside and key in it[field])
                it = it[:4] + (walk(it[4], p, ins, sh),) + it[5:]
            out.append(it)
        return out
    return walk(items, (), target == (), False)


def sprinkle(r, items, opt_cases, fmt_cases, defaults_o, prob=0.3):
    """Background customisation: options and format fields on every level of the tree (default or alternative value)."""
    def f(it, p):
        o, fm = dict(it[2]), dict(it[3])
        if opt_cases and r.random() < prob:
            k, v = r.choice(opt_cases)
            o[k] = v if r.random() < 0.6 else defaults_o.get(k, v)
        if fmt_cases and r.random() < prob:
            k, v = r.choice(fmt_cases)
            fm[k] = v + "bg"
        return it[:2] + (o, fm) + it[4:]
    return map_tree(items, f)


def tree_stats(items, depth=1, stats=None, chain=()):
    """distribution of the generated trees: depth, block-in-block nesting, customised levels"""
    if stats is None:
        stats = collections.Counter()
    for it in items:
        stats["nodes_" + it[0]] += 1
        if it[2] or it[3]:
            stats["customised_" + it[0]] += 1
        if it[0] != "fn":
            ch = chain + (it[0],)
            stats["max_depth"] = max(stats["max_depth"], depth)
            nb = 0
            for k in reversed(ch):
                if k != "block":
                    break
                nb += 1
            stats["max_block_nesting"] = max(stats["max_block_nesting"], nb)
            if nb >= 2:
                stats["block_in_block"] += 1
                if it[2] or it[3] or True:
                    pass
            if it[0] == "block" and len(ch) >= 2 and ch[-2] in ("cls", "ns"):
                stats["block_in_" + ch[-2]] += 1
            tree_stats(it[4], depth + 1, stats, ch)
    return stats


def nested_lib_doc(r, name, python):
    """Recursive generator: namespaces, classes and blocks nested up to four deep, blocks in blocks in
    library / namespace / class."""
    cnt = [0]

    dtors = set()

    def fn(inclass):
        cnt[0] += 1
        if inclass and r.random() < 0.35:
            # constructor / destructor of the enclosing class (inclass = its name), possibly inside blocks
            if inclass not in dtors and r.random() < 0.4:
                dtors.add(inclass)
                return ("fn", "d%d" % cnt[0], {}, {}, "~%s() +name(destroy%d)" % (inclass, cnt[0]))
            return ("fn", "c%d" % cnt[0], {}, {}, r.choice(["%s() +name(create%d)", "%s(int a, double b) +name(create%d)"]) % (inclass, cnt[0]))
        return ("fn", "f%d" % cnt[0], {}, {}, r.choice(POOL_FREE[:9] if inclass else POOL_FREE))

    def scope(kind, depth, inclass):
        cnt[0] += 1
        if kind == "cls":
            inclass = "K%d" % cnt[0]
        kids = []
        for _ in range(r.randrange(1, 4)):
            c = r.random()
            if depth < 4 and c < 0.45:
                kids.append(scope("block", depth + 1, inclass))
            elif depth < 3 and c < 0.55 and not inclass:
                kids.append(scope("ns", depth + 1, False))
            elif depth < 3 and c < 0.68 and not inclass:
                kids.append(scope("cls", depth + 1, True))
            else:
                kids.append(fn(inclass))
        if not any(k[0] == "fn" for k in kids):
            kids.append(fn(inclass))
        me = cnt[0] if kind != "cls" else int(inclass[1:])
        node = (kind, {"ns": "N%d", "cls": "K%d", "block": "B%d"}[kind] % me, {}, {}, kids)
        if kind == "cls" and r.random() < 0.4:
            # class template with two instantiations: its functions (also those inside blocks) are cloned
            cnt[0] += 1
            node = node[:4] + (kids + [("fn", "t%d" % cnt[0], {}, {}, "T {n}(const T &value)")], {"template": True})
        return node

    items = [scope("block", 1, False), scope("ns", 1, False), scope("cls", 1, True), fn(False)]
    r.shuffle(items)
    opts = {"debug_testsuite": True, "wrap_python": python, "wrap_lua": False}
    return {"library": name, "cxx_header": name + ".hpp", "options": opts, "format": {}, "tree": items}


def run_doc(doc, scr, tag):
    """In-process run of a generated description; returns (tree bytes | None, error text | None, yaml text)."""
    d = os.path.join(scr, tag)
    os.makedirs(d, exist_ok=True)
    text = doc_yaml(doc)
    path = shroudrun.write_yaml(d, doc["library"] + ".yaml", text)
    out = os.path.join(d, "out")
    os.makedirs(out, exist_ok=True)
    cfg, exc, _ = shroudrun.run_inproc([path], out, path=[d])
    if exc is not None:
        return None, "%s: %s" % (type(exc).__name__, str(exc)[:300]), text
    return shroudrun.read_tree(out), None, text


def run_doc_fresh(text, libname, scr, tag, cmdline=()):
    d = os.path.join(scr, tag)
    os.makedirs(d, exist_ok=True)
    path = shroudrun.write_yaml(d, libname + ".yaml", text)
    out = os.path.join(d, "out")
    os.makedirs(out, exist_ok=True)
    rc, log = shroudrun.run_fresh([path], out, cmdline=list(cmdline))
    if rc != 0:
        return None, "rc=%s %s" % (rc, log[-300:])
    return shroudrun.read_tree(out), None


def _nodecl(data):
    """JSON debug dump without what necessarily differs between the two spellings: the quoted declaration text and
    an attribute dictionary that holds nothing but the YAML line number of an attrs/fattrs entry (dumped as `{}`)."""
    try:
        obj = json.loads(data.decode())
    except ValueError:
        return data

    def clean(x):
        if isinstance(x, dict):
            out = {}
            for k, v in x.items():
                if k == "decl":
                    continue
                v = clean(v)
                if k == "attrs" and v == {}:
                    continue
                out[k] = v
            return out
        if isinstance(x, list):
            return [clean(v) for v in x]
        return x
    return json.dumps(clean(obj), sort_keys=True, indent=1).encode()


def first_diff(ta, tb, skip_json=True):
    """skip_json: True = ignore the JSON dump, False = compare it, 'nodecl' = compare it without the lines
    that quote the declaration text of the YAML file."""
    names = sorted(set(ta) | set(tb))
    for n in names:
        if skip_json is True and n.endswith(".json"):
            continue
        a, b = ta.get(n), tb.get(n)
        if skip_json == "nodecl" and n.endswith(".json") and a is not None and b is not None:
            a, b = _nodecl(a), _nodecl(b)
        if a != b:
            if a is None or b is None:
                return n, "file only in %s" % ("first" if b is None else "second")
            la, lb = a.decode(errors="replace").split("\n"), b.decode(errors="replace").split("\n")
            for i, (x, y) in enumerate(zip(la, lb)):
                if x != y:
                    return n, "line %d: %r vs %r" % (i + 1, x[:160], y[:160])
            return n, "length %d vs %d lines" % (len(la), len(lb))
    return None


class Oracle:
    def __init__(self, ctx, scr):
        self.ctx = ctx
        self.scr = scr
        self.n = 0
        self.kinds = collections.Counter()
        self.effective = collections.Counter()   # pairs where the customisation changed the output vs base
        self.errors = collections.Counter()

    def compare_docs(self, kind, key, what, doc_a, doc_b, base_tree=None, skip_json=True, error_types_only=False):
        """Run both in-process; a difference is confirmed in fresh processes before it is reported."""
        self.n += 1
        tag = "p%d" % self.n
        ta, ea, ya = run_doc(doc_a, self.scr, tag + "a")
        tb, eb, yb = run_doc(doc_b, self.scr, tag + "b")
        self.ctx.count(1)
        self.kinds[kind] += 1
        if ea or eb:
            same = (ea == eb) or (error_types_only and ea and eb and ea.split(":")[0] == eb.split(":")[0])
            if same:
                self.errors[kind] += 1
                return True
            diff = ("<exception>", "first: %s / second: %s" % (ea, eb))
        else:
            diff = first_diff(ta, tb, skip_json)
            if diff is None:
                if base_tree is not None and first_diff(ta, base_tree) is not None:
                    self.effective[kind] += 1
                    self.ctx.nontrivial(key)
                elif base_tree is None:
                    self.ctx.nontrivial(key)
                return True
        # confirm with fresh interpreters (rules out process-state effects, which are C07's subject)
        fa, e1 = run_doc_fresh(ya, doc_a["library"], self.scr, tag + "fa")
        fb, e2 = run_doc_fresh(yb, doc_b["library"], self.scr, tag + "fb")
        if fa is not None and fb is not None:
            diff2 = first_diff(fa, fb, skip_json)
            if diff2 is None:
                self.ctx.note("inprocess_only_difference", key)
                return True
            diff = diff2
        elif (fa is None) and (fb is None):
            return True
        self.ctx.fail(key, "%s: outputs differ in %s (%s)" % (what, diff[0], diff[1]),
                      {"kind": kind, "first": ya, "second": yb, "file": diff[0], "detail": diff[1]})
        return False


def attr_variants(r):
    """(decl with inline attributes, decl without, attrs dict, fattrs dict)"""
    cases = [
        ("double {n}(double *v +intent(in)+rank(1), int nv)", "double {n}(double *v, int nv)",
         {"v": {"intent": "in", "rank": "1"}}, None),
        ("void {n}(int *out +intent(out))", "void {n}(int *out)", {"out": {"intent": "out"}}, None),
        ("void {n}(int *arr +intent(inout)+dimension(n), int n)", "void {n}(int *arr, int n)",
         {"arr": {"intent": "inout", "dimension": "n"}}, None),
        ("int * {n}() +dimension(3)", "int * {n}()", None, {"dimension": "3"}),
        ("void {n}(char *s +intent(out)+charlen(20))", "void {n}(char *s)", {"s": {"intent": "out", "charlen": "20"}}, None),
        ("void {n}(int a +value, int *b +intent(in))", "void {n}(int a, int *b)", {"a": {"value": True}, "b": {"intent": "in"}}, None),
        ("int * {n}(int *n +intent(out)+hidden) +dimension(n)+deref(pointer)", "int * {n}(int *n)",
         {"n": {"intent": "out", "hidden": True}}, {"dimension": "n", "deref": "pointer"}),
        ("void {n}(double *v +rank=1+intent(in))", "void {n}(double *v)", {"v": {"rank": 1, "intent": "in"}}, None),
        ("const char * {n}() +len=30", "const char * {n}()", None, {"len": 30}),
        ("int {n}() +pure", "int {n}()", None, {"pure": True}),
        # the same attribute twice: the later one wins, in the text and in the dictionary alike
        ("void {n}(int *out +intent(in)+intent(out))", "void {n}(int *out +intent(in))", {"out": {"intent": "out"}}, None),
        # split: one attribute inline, the other in the dictionary
        ("void {n}(int *arr +intent(inout)+dimension(n), int n)", "void {n}(int *arr +intent(inout), int n)",
         {"arr": {"dimension": "n"}}, None),
    ]
    return r.choice(cases)


def harvest_attr_names():
    """The attribute names the checker accepts, read from the working tree (AST scan of generate.py):
    every `attr not in [ "...", ... ]` list inside check_fcn_attrs / check_arg_attrs / check_var_attrs."""
    import ast as pyast
    src = open(os.path.join(common.REPO, "shroud", "generate.py")).read()
    res = {}
    for fn in pyast.walk(pyast.parse(src)):
        if isinstance(fn, pyast.FunctionDef) and fn.name in ("check_fcn_attrs", "check_arg_attrs", "check_var_attrs"):
            names = []
            for n in pyast.walk(fn):
                if (isinstance(n, pyast.Compare) and len(n.ops) == 1 and isinstance(n.ops[0], pyast.NotIn)
                        and isinstance(n.left, pyast.Name) and n.left.id == "attr"
                        and isinstance(n.comparators[0], (pyast.List, pyast.Tuple))):
                    names += [e.value for e in n.comparators[0].elts if isinstance(e, pyast.Constant)]
            res[fn.name] = names
    return res


# values to try per attribute: ("flag",) | ("paren", text) | ("eq", python value, text)
ATTR_VALUES = {
    "intent": [("paren", "in"), ("paren", "out"), ("paren", "inout")],
    "deref": [("paren", "allocatable"), ("paren", "pointer"), ("paren", "raw"), ("paren", "scalar")],
    "owner": [("paren", "caller"), ("paren", "library")],
    "name": [("paren", "renamed")],
    "rank": [("paren", "1"), ("eq", 1, "1")],
    "dimension": [("paren", "n"), ("paren", "3")],
    "len": [("paren", "30"), ("eq", 30, "30")],
    "len_trim": [("paren", "n")],
    "size": [("paren", "n")],
    "implied": [("paren", "size(arg)")],
    "charlen": [("paren", "20")],
    "free_pattern": [("paren", "fp1")],
    "value": [("flag",)],
}
ATTR_DEFAULT_VALUES = [("flag",), ("paren", "n")]

# hosts: (where, decl with {A} marking the place of the attribute text, name of the argument or None for the function)
FUNC_HOSTS = [
    ("free", "int * {n}(int n){A}", None),
    ("free", "const char * {n}(){A}", None),
    ("free", "const std::string & {n}(){A}", None),
    ("free", "int {n}(int n){A}", None),
    ("free", "void {n}(){A}", None),
    ("method", "int * {n}(int n){A}", None),
    ("method", "const std::string & {n}(){A}", None),
    ("method", "void {n}() const{A}", None),
    ("ctor", "Thing(){A}", None),
    ("ctor", "Thing(int n){A}", None),
    ("dtor", "~Thing(){A}", None),
]
ARG_HOSTS = [
    ("free", "void {n}(int *arg{A}, int n)", "arg"),
    ("free", "void {n}(char *arg{A}, int n)", "arg"),
    ("free", "void {n}(const std::string & arg{A})", "arg"),
    ("free", "void {n}(int arg{A})", "arg"),
    ("free", "void {n}(double **arg{A}, int *n +intent(out))", "arg"),
    ("method", "void {n}(int *arg{A}, int n)", "arg"),
    ("ctor", "Thing(int arg{A})", "arg"),
    # attributes next to other per-declaration fields that copy the parameters (fortran_generic, default arguments)
    ("free", "void {n}(double *arg, int n{A})", "n", {"fortran_generic": [{"decl": "(float *arg)"}, {"decl": "(double *arg)"}]}),
    ("free", "void {n}(double *arg{A}, int n)", "arg", {"fortran_generic": [{"decl": "(float *arg)"}, {"decl": "(double *arg)"}]}),
    ("free", "void {n}(int *arg{A}, int n = 3)", "arg"),
]


def attr_pair_docs(where, host, argname, attr, form, idx, python, common_extra=None):
    if form[0] == "flag":
        text, val = " +%s" % attr, True
    elif form[0] == "paren":
        text, val = " +%s(%s)" % (attr, form[1]), form[1]
    else:
        text, val = " +%s=%s" % (attr, form[2]), form[1]
    fname = "h%d" % idx
    inline = host.replace("{A}", text).replace("{n}", fname)
    bare = host.replace("{A}", "").replace("{n}", fname)
    extra = {"attrs": {argname: {attr: val}}} if argname else {"fattrs": {attr: val}}
    keep = ("fn", "g1", {}, {}, "int {n}(int q)")

    def mk(decl, ex):
        ex = dict(ex or {}, **(common_extra or {}))
        f = ("fn", fname, {}, {}, decl) + ((ex,) if ex else ())
        if where == "free":
            tree = [keep, f]
        else:
            other = ("fn", "m1", {}, {}, "int {n}(int q)")
            tree = [keep, ("cls", "Thing", {}, {}, [other, f])]
        return {"library": "att", "cxx_header": "att.hpp", "options": {"debug_testsuite": True, "wrap_python": python},
                "tree": tree}
    return mk(inline, None), mk(bare, extra), inline


def oracle_attrs(ctx, orc, r, thorough):
    names = harvest_attr_names()
    ctx.note("harvested_attribute_names", names)
    if not names.get("check_fcn_attrs") or not names.get("check_arg_attrs"):
        ctx.tie_broken("attribute-harvest", "no accepted-attribute list found in generate.py")
    dist = collections.Counter()
    idx = 0
    for kind, hosts, alist in (("function", FUNC_HOSTS, names.get("check_fcn_attrs", [])),
                               ("argument", ARG_HOSTS, names.get("check_arg_attrs", []))):
        for attr in alist:
            forms = ATTR_VALUES.get(attr, ATTR_DEFAULT_VALUES)
            combos = [(h, f) for h in hosts for f in forms]
            if not thorough:
                # quick: every attribute name on every kind of host (free function, method, constructor), one value each,
                # plus a seeded sample of the other combinations
                seen, must, rest = set(), [], []
                for h, f in combos:
                    hk = (h[0], len(h) > 3)
                    if hk not in seen:
                        seen.add(hk); must.append((h, f))
                    else:
                        rest.append((h, f))
                combos = must + r.sample(rest, min(2, len(rest)))
            for hostrec, form in combos:
                where, host, argname = hostrec[:3]
                idx += 1
                a, b, inline = attr_pair_docs(where, host, argname, attr, form, idx, python=(idx % 3 == 0),
                                              common_extra=hostrec[3] if len(hostrec) > 3 else None)
                before = orc.errors["attrs"]
                orc.compare_docs("attrs", "attrs:%s:%s:%s:%s" % (kind, attr, where, form[0]),
                                 "inline attribute vs %s entry: %s" % ("attrs" if argname else "fattrs", inline),
                                 a, b, skip_json="nodecl", error_types_only=True)
                dist["%s.%s.%s" % (kind, attr, "rejected" if orc.errors["attrs"] > before else "accepted")] += 1
    ctx.note("attribute_pairs_distribution", dict(dist))
    never = sorted(set(k.rsplit(".", 1)[0] for k in dist) - set(k.rsplit(".", 1)[0] for k in dist if k.endswith(".accepted")))
    ctx.note("attributes_never_accepted_by_a_generated_host", never)


def real_library_scope(scr, yopts, opts):
    """main_with_args up to and including the construction of the library -> (every local entry of its option scope
    as text, wrap flags) or an error text"""
    from shroud import main as smain
    doc = collections.OrderedDict(library="tt")
    if yopts:
        doc["options"] = dict(yopts)
    path = shroudrun.write_yaml(scr, "m.yaml", yaml.safe_dump(dict(doc), default_flow_style=False, sort_keys=False))
    args = shroudrun.make_args([path], scr, options=opts)
    got = {}
    saved = smain.ast.create_library_from_dictionary

    def capture(node):
        got["lib"] = saved(node)
        raise _Captured()

    smain.ast.create_library_from_dictionary = capture
    buf = io.StringIO()
    try:
        with contextlib.redirect_stdout(buf):
            smain.main_with_args(args)
    except _Captured:
        pass
    except (Exception, SystemExit) as e:
        return "crash %s: %s" % (type(e).__name__, str(e)[:100]), doc
    finally:
        smain.ast.create_library_from_dictionary = saved
    if "lib" not in got:
        return "crash no-library-created", doc
    lib = got["lib"]
    res = {k: repr(v) for k, v in _scope_locals(lib.options).items() if k != "__line__"}
    w = getattr(lib, "wrap", None)
    for k in ("c", "fortran", "python", "lua"):
        res["<wrap.%s>" % k] = repr(getattr(w, k, None))
    return res, doc


CLI_NODE_LIB = [("fn", "cFun0", {}, {}, "int {n}(int a, double b)"), ("fn", "cFun1", {}, {}, "void {n}(char *name +intent(out)+charlen(20))"),
                ("fn", "cFun2", {}, {}, "double {n}(double *v +intent(in)+rank(1), int nv)"),
                ("cls", "Thing", {}, {}, [("fn", "getIt", {}, {}, "int {n}()")])]


def oracle_cli_library_scope(ctx, orc, scr, r, thorough, defaults_o):
    """EVERY option name (all of default_options), given with --option and given in the YAML file: the option scope of
    the library node and its wrap flags after construction must be the same (this is what every consumer reads; it
    sees options whose consequences are derived while the library is constructed).  A difference is then shown on the
    outputs of a small library in fresh processes."""
    dist = collections.Counter()
    shown = 0
    for name in sorted(defaults_o):
        dv = defaults_o[name]
        if isinstance(dv, bool):
            vals = [True, False]
        elif isinstance(dv, int):
            vals = [dv + 1]
        elif isinstance(dv, str):
            vals = [(dv + "_z") if dv else "zz"]
        else:
            dist["skipped_non_scalar_default"] += 1
            continue
        for v in vals:
            d1 = os.path.join(scr, "cn-%s-%s-y" % (name, v if isinstance(v, bool) else "v"))
            d2 = d1[:-1] + "c"
            os.makedirs(d1); os.makedirs(d2)
            cmd = ["%s=%s" % (name, _cli_text(v, 0))]
            a, doc_a = real_library_scope(d1, {name: v}, [])
            b, doc_b = real_library_scope(d2, None, cmd)
            common.rmtree(d1); common.rmtree(d2)
            ctx.count(1)
            orc.kinds["cli-library-scope"] += 1
            dist[type(v).__name__] += 1
            if a == b:
                if isinstance(a, dict):
                    ctx.nontrivial("cli-node:%s:%r" % (name, v))
                continue
            if isinstance(a, dict) and isinstance(b, dict):
                ks = sorted(k for k in set(a) | set(b) if a.get(k) != b.get(k))
                detail = "; ".join("%s: %s (YAML) vs %s (--option)" % (k, a.get(k), b.get(k)) for k in ks[:4])
            else:
                detail = "%s (YAML) vs %s (--option)" % (a if isinstance(a, str) else "ok", b if isinstance(b, str) else "ok")
            full_a = {"library": "cli", "cxx_header": "cli.h", "options": {name: v}, "tree": CLI_NODE_LIB}
            full_b = dict(full_a, options={})
            what = "options: {%s: %r} in the YAML file vs --option %s: the library's option scope differs: %s" % (name, v, cmd[0], detail)
            if shown < 3:
                shown += 1
                ta, e1 = run_doc_fresh(doc_yaml(full_a), "cli", scr, "cn%da" % shown, ["--option", "debug_testsuite=true"])
                tb, e2 = run_doc_fresh(doc_yaml(full_b), "cli", scr, "cn%db" % shown, ["--option", "debug_testsuite=true", "--option", cmd[0]])
                if ta is not None and tb is not None:
                    fd = first_diff(ta, tb, skip_json=True)
                    what += "; generated files: " + ("%s %s" % fd if fd else "no difference on the small library")
            ctx.fail("cli-node:%s" % name, what,
                     {"kind": "cli", "first": doc_yaml(full_a), "second": doc_yaml(full_b), "cmdline": ["--option", cmd[0]]})
    ctx.note("cli_library_scope_distribution", dict(dist))


def oracle_instantiations(ctx, orc, scr, r, thorough, opt_cases, fmt_cases):
    """Options / format fields written for ONE instantiation of a class template (cxx_template entry) apply to that
    instantiation and to nothing else: the C files of every other instantiation equal those of the run where no
    instantiation is customised, whatever the position of the customised one (first, middle, last)."""
    insts = ["<int>", "<double>", "<long>"]
    body = [("fn", "ctor", {}, {}, "Box()"), ("fn", "put", {}, {}, "void {n}(const T &value)"),
            ("block", "Bq", {}, {}, [("fn", "at", {}, {}, "T {n}(int n)")]), ("fn", "count", {}, {}, "int {n}(int *n +intent(out))")]

    def doc(custom):
        ct = []
        for i, ins in enumerate(insts):
            e = {"instantiation": ins}
            if i in custom:
                e.update(custom[i])
            ct.append(e)
        tree = [("fn", "free1", {}, {}, "int {n}(int q)"), ("cls", "Box", {}, {}, body, {"template": True, "cxx_template": ct})]
        return {"library": "ins", "cxx_header": "ins.hpp", "options": {"debug_testsuite": True, "wrap_python": False, "wrap_lua": False},
                "tree": tree}

    def owned(tree, ins):
        tag = "Box_" + ins.strip("<>")
        return {k: v for k, v in tree.items() if tag in k and not k.endswith(".json")}

    base, eb, yb = run_doc(doc({}), scr, "ins-base")
    if eb:
        ctx.tie_broken("instantiation-library-rejected", eb)
        return
    if not all(owned(base, ins) for ins in insts):
        ctx.tie_broken("instantiation-files", "an instantiation of the class template has no file of its own: %s" % sorted(base))
        return
    cases = [("options", k, v) for k, v in opt_cases] + [("format", k, v) for k, v in fmt_cases]
    always = [("options", "C_name_template", "{C_prefix}zq_{C_name_scope}{underscore_name}{function_suffix}"),
              ("options", "F_force_wrapper", True), ("format", "C_prefix", "ZQ_")]
    if not thorough:
        cases = r.sample(cases, min(3, len(cases)))
    cases = always + [c for c in cases if c not in always]
    dist = collections.Counter()
    for ci, (field, key, val) in enumerate(cases):
        for pos in ([0, 1, 2] if thorough or ci < 2 else [r.randrange(3)]):
            t1, e1, y1 = run_doc(doc({pos: {field: {key: val}}}), scr, "ins-%d-%d" % (ci, pos))
            ctx.count(1)
            orc.kinds["instantiation"] += 1
            dist["%s.position%d" % (field, pos)] += 1
            if e1:
                dist["rejected"] += 1
                continue
            bad = None
            for j, ins in enumerate(insts):
                if j == pos:
                    continue
                for fn_ in sorted(owned(base, ins)):
                    if t1.get(fn_) != base[fn_]:
                        bad = (fn_, ins)
                        break
                if bad:
                    break
            if bad:
                ctx.fail("instantiation:%s:%s:%d" % (field, key, pos),
                         "%s %s=%r written for instantiation %s of a class template changes the files of instantiation %s (%s)" % (
                             field, key, val, insts[pos], bad[1], bad[0]),
                         {"kind": "instantiation", "first": y1, "second": yb, "file": bad[0]})
            elif owned(t1, insts[pos]) != owned(base, insts[pos]):
                ctx.nontrivial("instantiation:%s:%s:%d" % (field, key, pos))
                dist["effective"] += 1
    ctx.note("instantiation_locality_distribution", dict(dist))



def gen_cli_options(r, defaults_o):
    """Option values of every kind: booleans, integers, enumerated strings, templates and free strings with capital
    letters, braces and spaces.  Returns {name: value} (value as YAML would hold it)."""
    bools = sorted(k for k, v in defaults_o.items() if isinstance(v, bool) and k not in ("debug_testsuite",))
    ints = {"C_line_length": [60, 100], "F_line_length": [60, 100], "CXX_standard": [2003, 2011]}
    enums = {"PY_array_arg": ["list", "numpy"], "PY_struct_arg": ["list", "class"], "return_scalar_pointer": ["scalar", "pointer"],
             "C_API_case": ["upper", "lower", "preserve"]}
    templates = sorted(k for k, v in defaults_o.items() if isinstance(v, str) and k.endswith("_template") and v
                       and ("name" in k or "var" in k))
    out = {}
    for _ in range(r.randrange(2, 6)):
        c = r.random()
        if c < 0.3:
            k = r.choice(bools); out[k] = r.random() < 0.5
        elif c < 0.4:
            k = r.choice(sorted(ints)); out[k] = r.choice(ints[k])
        elif c < 0.5:
            k = r.choice(sorted(enums)); out[k] = r.choice(enums[k])
        else:
            k = r.choice(templates)
            d = defaults_o[k]
            out[k] = r.choice(["Wrap_" + d, d + "_X", "Do{function_name}", "{C_prefix}Do_{underscore_name}{function_suffix}",
                               d.upper() if "{" not in d else d.replace("{", "Q{", 1), d + " x", "My" + d])
    return out


def _cli_text(v, i):
    if isinstance(v, bool):
        return (("true", "True") if v else ("false", "False"))[i % 2]
    return str(v)


def oracle_cli(ctx, orc, scr, r, thorough, defaults_o):
    """Every kind of option value moved between the YAML file and --option (and language: / --language), in fresh
    processes through the real argparse: all in YAML = all on the command line = split."""
    fixed = [
        ({"wrap_python": True, "debug": True}, "c"),
        ({"F_name_impl_template": "Wrap_{underscore_name}{function_suffix}", "LUA_name_template": "Do{function_name}", "wrap_lua": True}, "c++"),
        ({"C_name_template": "{C_prefix}X{C_name_scope}{underscore_name}{function_suffix}", "C_line_length": 60, "F_force_wrapper": True}, None),
        ({"PY_array_arg": "list", "wrap_python": True, "wrap_fortran": False}, None),
    ]
    cases = fixed[: 4 if thorough else 3]
    for _ in range(16 if thorough else 4):
        cases.append((gen_cli_options(r, defaults_o), r.choice([None, None, "c", "c++"])))
    dist = collections.Counter()
    for i, (opts, lang) in enumerate(cases):
        for v in opts.values():
            dist[("bool" if isinstance(v, bool) else "int" if isinstance(v, int) else
                  "str-capitals" if any(ch.isupper() for ch in v) else "str")] += 1
            if isinstance(v, str):
                if "{" in v:
                    dist["str-braces"] += 1
                if " " in v:
                    dist["str-spaces"] += 1
        decls = ["int {n}(int a, double b)", "void {n}(const char *s)", "double {n}(double *v +intent(in)+rank(1), int nv)",
                 "void get_name(char *name +intent(out)+charlen(20))"]
        tree = [("fn", "cFun%d" % j, {}, {}, d) for j, d in enumerate(decls)]
        if lang != "c":
            tree.append(("fn", "cStr", {}, {}, "const std::string & {n}(const std::string & name)"))
            tree.append(("cls", "Thing", {}, {}, [("fn", "getIt", {}, {}, "int {n}()"), ("fn", "k", {}, {}, "Thing() +name(create)")]))
        a = {"library": "cli", "cxx_header": "cli.h", "options": dict(opts), "tree": tree}
        if lang:
            a["language"] = lang
        names = sorted(opts)
        half = names[: len(names) // 2]
        b = dict(a, options={})
        b.pop("language", None)
        c = dict(a, options={k: opts[k] for k in half})
        cmd_all, cmd_half = [], []
        for k in names:
            txt = "%s=%s" % (k, _cli_text(opts[k], i))
            cmd_all += ["--option", txt]
            if k not in half:
                cmd_half += ["--option", txt]
        if lang:
            cmd_all += ["--language", lang]
        common_cmd = ["--option", "debug_testsuite=true"]
        # (iv) override: the YAML file states OTHER values (and the other language), the command line states these
        def other(v):
            return (not v) if isinstance(v, bool) else v + 1 if isinstance(v, int) else v + "_other"
        o = dict(a, options={k: other(v) for k, v in opts.items()})
        if lang:
            o["language"] = "c" if lang == "c++" else "c++"
            if lang == "c":     # the C++-only declarations cannot be in a file that is then read as C
                o["language"] = "c++"
        ta, e1 = run_doc_fresh(doc_yaml(a), "cli", scr, "cli%da" % i, common_cmd)
        tb, e2 = run_doc_fresh(doc_yaml(b), "cli", scr, "cli%db" % i, common_cmd + cmd_all)
        tc, e3 = run_doc_fresh(doc_yaml(c), "cli", scr, "cli%dc" % i, common_cmd + cmd_half)
        to, e4 = run_doc_fresh(doc_yaml(o), "cli", scr, "cli%do" % i, common_cmd + cmd_all)
        ctx.count(3)
        orc.kinds["cli"] += 3
        if lang:
            dist["language_override_" + lang] += 1
        if e1:
            dist["yaml_run_rejected"] += 1
        for other, eo, cmd, lbl in ((tb, e2, cmd_all, "all"), (tc, e3, cmd_half, "split"), (to, e4, cmd_all, "override")):
            key = "cli:%s:%s" % (lbl, "+".join(names))
            if e1 or eo:
                # both must stop, and for the same reason (last line of the message)
                l1 = (e1 or "").strip().split("\n")[-1][-120:]
                l2 = (eo or "").strip().split("\n")[-1][-120:]
                if bool(e1) != bool(eo) or l1 != l2:
                    ctx.fail(key, "YAML fields vs command line: runs end differently (%s / %s)" % (l1 or "ok", l2 or "ok"),
                             {"kind": "cli", "first": doc_yaml(a), "second": doc_yaml({"all": b, "split": c, "override": o}[lbl]), "cmdline": cmd})
                continue
            diff = first_diff(ta, other, skip_json=False)
            if diff:
                ctx.fail(key, "YAML fields %s vs --option/--language differ in %s (%s)" % (opts, diff[0], diff[1]),
                         {"kind": "cli", "first": doc_yaml(a), "second": doc_yaml({"all": b, "split": c, "override": o}[lbl]),
                          "cmdline": cmd, "file": diff[0]})
            else:
                ctx.nontrivial("cli:%d:%s" % (i, lbl))
    ctx.note("cli_option_value_distribution", dict(dist))


PATH_YAML = """library: Api
cxx_header: api.hpp
options:
  wrap_python: false
  wrap_lua: false
splicer:
  f:
  - fapi_splicer.f
  c:
  - capi_splicer.c
declarations:
- decl: int apiVersion()
- decl: class Session
  declarations:
  - decl: Session()
  - decl: int id()
"""


def _fsplice(tag):
    return ("! splicer begin module_top\ninteger, parameter :: API_REV_%s = 1\n! splicer end module_top\n" % tag)


def _csplice(tag):
    return ("// splicer begin CXX_definitions\n// revision %s\n// splicer end CXX_definitions\n" % tag)


def oracle_paths(ctx, orc, scr, thorough):
    """--path P ... on the command line vs create_wrapper(path=[P, ...]) from the same kind of working directory:
    the YAML file names splicer files, the search path has the current ones, the current directory holds stale
    files of the same names.  Both must produce the same output, and it must contain the text found on the path."""
    variants = [
        ("one", ["splicers"], ["--path", "splicers"], {"f": "splicers", "c": "splicers"}),
        ("none", None, [], {"f": ".", "c": "."}),
        ("colon", ["more:splicers"], ["--path", "more:splicers"], {"f": "splicers", "c": "more"}),
        ("two", ["more", "splicers"], ["--path", "more", "--path", "splicers"], {"f": "splicers", "c": "more"}),
    ]
    env = dict(os.environ, PYTHONPATH=common.REPO, PYTHONDONTWRITEBYTECODE="1")
    for name, plist, cmdpath, expect in (variants if thorough else variants[:3]):
        res = []
        for mode in ("api", "cli"):
            d = os.path.join(scr, "path-%s-%s" % (name, mode))
            for sub in ("out", "splicers", "more"):
                os.makedirs(os.path.join(d, sub))
            shroudrun.write_yaml(d, "api.yaml", PATH_YAML)
            # stale look-alikes in the current directory
            shroudrun.write_yaml(d, "fapi_splicer.f", _fsplice("CWD"))
            shroudrun.write_yaml(d, "capi_splicer.c", _csplice("CWD"))
            shroudrun.write_yaml(os.path.join(d, "splicers"), "fapi_splicer.f", _fsplice("SPLICERS"))
            shroudrun.write_yaml(os.path.join(d, "splicers"), "capi_splicer.c", _csplice("SPLICERS"))
            shroudrun.write_yaml(os.path.join(d, "more"), "capi_splicer.c", _csplice("MORE"))
            if mode == "api":
                cmd = [sys.executable, "-c", "import shroud; shroud.create_wrapper('api.yaml', outdir='out', path=%r)" % (plist,)]
            else:
                cmd = [sys.executable, "-c", "from shroud.main import main; main()", "--outdir", "out"] + cmdpath + ["api.yaml"]
            p = subprocess.run(cmd, cwd=d, env=env, stdout=subprocess.PIPE, stderr=subprocess.STDOUT, text=True, timeout=300)
            res.append((p.returncode, p.stdout, shroudrun.read_tree(os.path.join(d, "out"))))
        ctx.count(1)
        orc.kinds["path"] += 1
        (rca, outa, ta), (rcb, outb, tb) = res
        replay = {"kind": "create_wrapper", "first": PATH_YAML, "second": PATH_YAML, "path": plist, "cmdline": cmdpath,
                  "cwd_holds_stale": ["fapi_splicer.f", "capi_splicer.c"]}
        if rca != rcb:
            ctx.fail("path:%s:rc" % name, "create_wrapper(path=%r) rc=%s, command line %s rc=%s: %s" % (
                plist, rca, cmdpath, rcb, (outa if rca else outb).strip().split("\n")[-1][:160]), replay)
            continue
        if rca != 0:
            continue
        diff = first_diff(ta, tb, skip_json=False)
        if diff:
            ctx.fail("path:%s:diff" % name, "create_wrapper(path=%r) vs command line %s differ in %s (%s)" % (
                plist, cmdpath, diff[0], diff[1]), dict(replay, file=diff[0]))
            continue
        alltext = b"".join(ta.values())
        tagf = {".": b"API_REV_CWD", "splicers": b"API_REV_SPLICERS"}[expect["f"]]
        tagc = {".": b"revision CWD", "splicers": b"revision SPLICERS", "more": b"revision MORE"}[expect["c"]]
        if tagf not in alltext or tagc not in alltext:
            ctx.fail("path:%s:wrong-file" % name, "both entry points spliced a file that is not the first match on the search path %r" % (plist,),
                     replay)
        else:
            ctx.nontrivial("path:" + name)


def locality_doc(r, python):
    """two sibling namespaces, each with its own C / Fortran / Python files, with the same kinds of functions"""
    def members(tag):
        ds = r.sample(POOL_FREE[:13], 3) + ["int {n}(const int *values +dimension(..), int nvalues)",
                                            "const std::string & {n}(const std::string & name)"]
        r.shuffle(ds)
        out = [("fn", "%s%d" % (tag, j), {}, {}, d) for j, d in enumerate(ds)]
        out.append(("cls", "K" + tag, {}, {}, [("fn", tag + "m", {}, {}, "int {n}(int a, double b)"),
                                              ("fn", tag + "s", {}, {}, "const std::string & {n}()")]))
        return out
    tree = [("ns", "alpha", {}, {}, members("a")), ("ns", "beta", {}, {}, members("b"))]
    return {"library": "loc", "cxx_header": "loc.hpp", "options": {"debug_testsuite": True, "wrap_python": python, "wrap_lua": False},
            "format": {}, "tree": tree}


def oracle_locality(ctx, orc, scr, r, thorough, opt_cases, fmt_cases):
    """The output written for a container depends only on what ITS declarations look up: with k=v written on
    namespace alpha only, the files of beta equal the uncustomised run and the files of alpha equal the run with k=v
    on the whole library (and the same with the roles swapped).  This sees a value computed once and reused across
    declarations, which every lookup-preserving rewrite is blind to."""
    dist = collections.Counter()
    for rep in range(2 if thorough else 1):
        doc = locality_doc(r, python=(rep == 0))
        base, eb, _ = run_doc(doc, scr, "loc%d-base" % rep)
        if eb:
            ctx.note("locality_library_rejected", eb)
            continue

        def owned(tree, who):
            return {k: v for k, v in tree.items() if who in k and not k.endswith(".json")}
        cases = [(2, k, v) for k, v in opt_cases] + [(3, k, v) for k, v in fmt_cases]
        if not thorough:
            ints = [c for c in cases if isinstance(c[2], int) and not isinstance(c[2], bool)]
            rest = [c for c in cases if c not in ints]
            cases = ints + r.sample(rest, min(4, len(rest)))
        for field, key, val in cases:
            fname = "options" if field == 2 else "format"
            lib = copy.deepcopy(doc); lib[fname] = dict(lib[fname]); lib[fname][key] = val
            tl, el, yl = run_doc(lib, scr, "loc%d-%s-lib" % (rep, key))
            for mine, other, idx in (("alpha", "beta", 0), ("beta", "alpha", 1)):
                one = copy.deepcopy(doc)
                one["tree"] = set_on(doc["tree"], (idx,), field, key, val)
                t1, e1, y1 = run_doc(one, scr, "loc%d-%s-%s" % (rep, key, mine))
                ctx.count(1)
                orc.kinds["locality"] += 1
                dist["%s.%s" % (fname, type(val).__name__)] += 1
                if e1 or el:
                    if bool(e1) != bool(el):
                        ctx.fail("locality:%s:%s:rejected" % (fname, key),
                                 "%s %s=%r on namespace %s: %s; on the library: %s" % (fname, key, val, mine, e1 or "ok", el or "ok"),
                                 {"kind": "locality", "first": y1, "second": yl})
                    continue
                bad = None
                for fn_ in sorted(owned(base, other)):
                    if t1.get(fn_) != base[fn_]:
                        bad = (fn_, "sibling namespace %s changed although %s %s=%r is written on %s only" % (other, fname, key, val, mine),
                               doc_yaml(doc))
                        break
                if not bad:
                    for fn_ in sorted(set(owned(tl, mine)) | set(owned(t1, mine))):
                        if t1.get(fn_) != tl.get(fn_):
                            bad = (fn_, "files of namespace %s differ between %s %s=%r on that namespace and on the library" % (
                                mine, fname, key, val), yl)
                            break
                if bad:
                    ctx.fail("locality:%s:%s:%s" % (fname, key, mine), "%s (%s)" % (bad[1], bad[0]),
                             {"kind": "locality", "first": y1, "second": bad[2], "file": bad[0]})
                elif owned(t1, mine) != owned(base, mine):
                    ctx.nontrivial("locality:%s:%s:%s" % (fname, key, mine))
    ctx.note("locality_distribution", dict(dist))


def oracle_aliases(ctx, orc, scr, r, thorough, opt_cases, fmt_cases):
    """A mapping written once and referred to by YAML aliases from several declarations (options, format, attrs,
    fattrs) equals the description with the aliases expanded.  This sees input dictionaries that are consumed/mutated."""
    n_alias = 0
    for rep in range(6 if thorough else 3):
        # functions with the same parameter list sharing one attrs / fattrs mapping
        inline, bare, attrs, fattrs = attr_variants(_Fixed(r.randrange(12)))
        extra = {}
        if attrs:
            extra["attrs"] = attrs
        if fattrs:
            extra["fattrs"] = fattrs
        k, v = r.choice(opt_cases)
        fk, fv = r.choice(fmt_cases) if fmt_cases else (None, None)
        o = {k: v}
        fm = {fk: fv} if fk else {}
        tree = [("fn", "s%d" % j, dict(o), dict(fm), bare, copy.deepcopy(extra)) for j in range(3)]
        tree.insert(1, ("block", "B", dict(o), dict(fm), [("fn", "s9", {}, {}, bare, copy.deepcopy(extra))]))
        doc = {"library": "ali", "cxx_header": "ali.hpp", "options": {"debug_testsuite": True, "wrap_python": rep % 2 == 0}, "tree": tree}
        shared, cnt = share_equal_dicts(doc)
        n_alias += cnt
        expanded = dict(doc, expand_aliases=True)
        orc.compare_docs("aliases", "aliases:%s" % ("attrs" if attrs else "fattrs"),
                         "one mapping shared through YAML aliases (%d aliases) vs the same description with copies" % cnt,
                         shared, expanded, skip_json=False)
    ctx.note("alias_pairs", {"pairs": 6 if thorough else 3, "aliases_made": n_alias})


def harvest_template_fields():
    """(node class, format field, template option) for every `self.eval_template("NAME"[, "TNAME"])` in the
    default_format / expand_format_templates methods of LibraryNode, NamespaceNode and ClassNode (AST scan of ast.py)."""
    import ast as pyast
    src = open(os.path.join(common.REPO, "shroud", "ast.py")).read()
    out = []
    for cls in pyast.walk(pyast.parse(src)):
        if isinstance(cls, pyast.ClassDef) and cls.name in ("LibraryNode", "NamespaceNode", "ClassNode"):
            for n in pyast.walk(cls):
                if isinstance(n, pyast.Call) and isinstance(n.func, pyast.Attribute) and n.func.attr == "eval_template" \
                        and isinstance(n.func.value, pyast.Name) and n.func.value.id == "self" and n.args \
                        and isinstance(n.args[0], pyast.Constant):
                    tn = n.args[1].value if len(n.args) > 1 and isinstance(n.args[1], pyast.Constant) else ""
                    rec = (cls.name, n.args[0].value, n.args[0].value + tn + "_template")
                    if rec not in out:
                        out.append(rec)
    return out


def oracle_format_vs_template(ctx, orc, scr, r, thorough):
    """A format field written directly under `format:` of a library / namespace / class equals the same literal given
    through the template option that field is derived from (same node), including any post-processing of the value
    (F_module_name is lower-cased): compared on the constructed nodes for every harvested field, and on complete
    outputs for a sample."""
    from shroud import ast, typemap
    fields = harvest_template_fields()
    ctx.note("harvested_template_fields", len(fields))
    if not fields:
        ctx.tie_broken("template-field-harvest", "no eval_template call found in ast.py")
    kindmap = {"LibraryNode": "library", "NamespaceNode": "ns", "ClassNode": "cls"}
    dist = collections.Counter()
    full = []
    for clsname, field, tmpl in fields:
        kind = kindmap[clsname]
        if kind == "ns" and tmpl.endswith("_library_template"):
            continue   # only used for the namespaces named in the top-level `namespace:` field
        for val in ("ZqMixed_%s" % field[:6], "zqlower"):
            docs = []
            for spelling in ("format", "template"):
                tree = [("ns", "outer", {}, {}, [("fn", "f1", {}, {}, "void {n}()")]),
                        ("cls", "Kls", {}, {}, [("fn", "m1", {}, {}, "int {n}(int a)")]),
                        ("fn", "f2", {}, {}, "int {n}(int a, double b)")]
                doc = {"library": "ftl", "cxx_header": "ftl.hpp", "options": {"debug_testsuite": True, "wrap_python": True}, "format": {},
                       "tree": tree}
                fld, key = (3, field) if spelling == "format" else (2, tmpl)
                if kind == "library":
                    tgt = "format" if spelling == "format" else "options"
                    doc[tgt] = dict(doc[tgt]); doc[tgt][key] = val
                else:
                    doc["tree"] = set_on(tree, (0,) if kind == "ns" else (1,), fld, key, val)
                docs.append(doc)
            got = []
            for doc in docs:
                desc = yaml.safe_load(doc_yaml(doc))
                try:
                    typemap.initialize()
                    with contextlib.redirect_stdout(io.StringIO()):
                        lib = ast.create_library_from_dictionary(desc)
                    node = lib if kind == "library" else lib.namespaces[0] if kind == "ns" else lib.classes[0]
                    got.append(repr(node.fmtdict.get(field, None)))
                except Exception as e:
                    got.append("raised " + type(e).__name__)
            ctx.count(1)
            if got[1] == "None":
                dist["%s.not-derived-on-this-node" % kind] += 1     # e.g. struct-only fields on a class
                continue
            orc.kinds["format-vs-template"] += 1
            dist["%s.%s" % (kind, "equal" if got[0] == got[1] else "DIFFERENT")] += 1
            if field == "F_module_name" and got[0] == got[1] and got[0] != repr(val.lower()):
                # model: libraryField / namespaceField with post = lower-casing
                ctx.tie_broken("field-order-model", {"node": kind, "field": field, "value": val, "impl": got[0], "model": val.lower()})
            if got[0] != got[1]:
                ctx.fail("format-vs-template:%s:%s" % (kind, field),
                         "%s field %s=%r written under format: gives %s, the same literal through option %s gives %s" % (
                             kind, field, val, got[0], tmpl, got[1]),
                         {"kind": "format-vs-template", "first": doc_yaml(docs[0]), "second": doc_yaml(docs[1])})
            elif val.startswith("ZqMixed"):
                full.append((kind, field, docs))
    # complete outputs for a sample (always the Fortran module names)
    sample = [x for x in full if x[1] == "F_module_name"]
    rest = [x for x in full if x[1] != "F_module_name"]
    sample += r.sample(rest, min(len(rest), 6 if thorough else 2))
    for kind, field, docs in sample:
        orc.compare_docs("format-vs-template-output", "format-vs-template-output:%s:%s" % (kind, field),
                         "%s field %s under format: vs through its template option" % (kind, field), docs[0], docs[1], skip_json=True)
    ctx.note("format_vs_template_distribution", dict(dist))


def oracle_member_kinds(ctx, orc, scr, r, thorough, defaults_o):
    """Options that are read from namespace scopes only (class scopes only): written on the library, or on an enclosing
    namespace, they equal the same option written on every namespace (class) inside.  This sees a container loop that
    reads a member's option from the enclosing node."""
    ns_o = extract_optreads.baseline_kind("namespace_scoped_options")
    cls_o = extract_optreads.baseline_kind("class_scoped_options")
    dist = collections.Counter()
    for rep in range(3 if thorough else 1):
        cnt = [0]

        def fn():
            cnt[0] += 1
            return ("fn", "f%d" % cnt[0], {}, {}, r.choice(POOL_FREE[:9]))
        inner = ("ns", "deep", {}, {}, [fn(), ("cls", "Kd", {}, {}, [fn()])])
        tree = [("ns", "outer", {}, {}, [fn(), inner, ("cls", "Ko", {}, {}, [fn(), fn()])]),
                ("ns", "second", {}, {}, [fn(), ("block", "B", {}, {}, [("ns", "inblock", {}, {}, [fn()])])]),
                ("cls", "Kt", {}, {}, [fn()]), fn()]
        doc = {"library": "mk%d" % rep, "cxx_header": "mk.hpp", "options": {"debug_testsuite": True, "wrap_python": rep % 2 == 0,
                                                                              "wrap_lua": rep == 1}, "format": {}, "tree": tree}
        base, eb, _ = run_doc(doc, scr, "mk%d-base" % rep)
        if eb:
            ctx.note("member_kind_library_rejected", eb)
            continue
        for kind, names in (("ns", ns_o), ("cls", cls_o)):
            for key in names:
                val = alt_value(key, defaults_o.get(key))
                if val is None:
                    continue
                places = [((), "library")] + [(p, it[0]) for p, it in containers(tree) if it[0] == "ns"]
                if not thorough:
                    places = places[:2]
                for p, pk in places:
                    a = copy.deepcopy(doc); b = copy.deepcopy(doc)
                    if p == ():
                        a["options"] = dict(a["options"]); a["options"][key] = val
                    else:
                        a["tree"] = set_on(tree, p, 2, key, val)
                    b["tree"] = set_on_kind(tree, p, 2, key, val, kind)
                    if p != () and kind == "ns":
                        # the namespace the option is written on reads it itself
                        b["tree"] = set_on(b["tree"], p, 2, key, val)
                    dist["%s-scoped.%s.on-%s" % (kind, type(val).__name__, pk)] += 1
                    orc.compare_docs("%s-option-on-%s" % (kind, pk), "member-kind:%s:%s:%s" % (kind, key, pk),
                                     "option %s=%r on %s vs on every %s inside" % (key, val, pk, {"ns": "namespace", "cls": "class"}[kind]),
                                     a, b, base_tree=base)
    ctx.note("member_kind_distribution", dict(dist))


def oracle_pairs(ctx, scr, thorough, fs_options, fs_formats, defaults_o, defaults_f):
    r = common.rng("c14-oracle")
    orc = Oracle(ctx, scr)
    nlib = 8 if thorough else 4

    _phase('oracle:containers')
    # ---------- corpus: replayed pairs first
    cpath = os.path.join(common.CORPUS, "c14.txt")
    if os.path.exists(cpath):
        for ln in open(cpath):
            ln = ln.strip()
            if not ln or ln.startswith("#"):
                continue
            rec = json.loads(ln)
            if rec.get("type") != "pair":
                continue
            da, db = rec["first"], rec["second"]
            orc.compare_docs("corpus", "corpus:" + rec["key"], rec["what"], da, db, skip_json=rec.get("skip_json", True))

    opt_cases = [(o, alt_value(o, defaults_o.get(o))) for o in fs_options]
    opt_cases = [(o, v) for o, v in opt_cases if v is not None]
    fmt_cases = [(f, "zq" + (defaults_f.get(f) or "val")) for f in fs_formats]
    if not thorough:
        # quick: a seeded sample, always containing the options the design names
        must = [c for c in opt_cases if c[0] in ("F_force_wrapper", "C_force_wrapper", "F_string_len_trim",
                                                 "F_create_bufferify_function")
                or (isinstance(c[1], int) and not isinstance(c[1], bool))]
        rest = [c for c in opt_cases if c not in must]
        r.shuffle(rest)
        must.sort(key=lambda c: c[0] != "F_force_wrapper")
        opt_cases = must + rest[:3]
        r.shuffle(fmt_cases)
        fmt_cases = fmt_cases[:4]
    ctx.note("oracle_options", [o for o, _ in opt_cases])
    ctx.note("oracle_formats", [f for f, _ in fmt_cases])

    stats = collections.Counter()
    wrap_dist = collections.Counter()
    for li in range(nlib):
        if li >= 2 and li % 2 == 0:
            doc = nested_lib_doc(r, "eqv%d" % li, python=(li % 4 == 0))
            for _ in range(20):
                st = tree_stats(doc["tree"])
                if thorough or (st["nodes_fn"] <= 14 and st["nodes_block"] + st["nodes_ns"] + st["nodes_cls"] <= 9):
                    break
                doc = nested_lib_doc(r, "eqv%d" % li, python=(li % 4 == 0))
        else:
            doc = lib_doc(r, "eqv%d" % li, python=(li % 2 == 0), simple=("minimal" if li == 0 else li == 1))
        if li >= 2:
            # options + format already present on every level (the tested key may be among them: nearer definitions)
            doc["tree"] = sprinkle(r, doc["tree"], opt_cases, fmt_cases, defaults_o)
        tree_stats(doc["tree"], stats=stats)
        base_tree, eb, _ = run_doc(doc, scr, "base%d" % li)
        if eb:
            ctx.note("generated_library_rejected_%d" % li, eb)
            continue
        conts = list(containers(doc["tree"]))
        # ---- option / format on a container vs on each member; the library itself is the container ()
        if thorough:
            # every option on every library; the (many, alike) format fields in three rotating thirds, plus all of
            # them on the two hand-shaped libraries
            lib_opt_cases = opt_cases
            lib_fmt_cases = fmt_cases if li < 2 else [c for j, c in enumerate(fmt_cases) if j % 3 == li % 3]
        else:
            # quick: per library F_force_wrapper plus a rotating slice, so that the libraries together cover the sample
            lib_opt_cases = opt_cases[:1] + [c for j, c in enumerate(opt_cases[1:]) if j % nlib == li][:2]
            lib_fmt_cases = [c for j, c in enumerate(fmt_cases) if j % nlib == li][:1] or fmt_cases[:1]
        for field, cases in ((2, lib_opt_cases), (3, lib_fmt_cases)):
            fname = "options" if field == 2 else "format"
            for key, val in cases:
                placements = [((), "library")] + [(p, it[0]) for p, it in conts]
                if not thorough and len(placements) > 5:
                    # quick: the library, every container that itself contains a container (nesting), a sample of the rest
                    nest = [pl for pl, (p_, it_) in zip(placements[1:], conts) if any(k[0] != "fn" for k in it_[4])]
                    rest = [pl for pl in placements[1:] if pl not in nest]
                    placements = [placements[0]] + nest[:6] + r.sample(rest, min(1, len(rest)))
                for p, kind in placements:
                    a = copy.deepcopy(doc)
                    b = copy.deepcopy(doc)
                    if p == ():
                        a[fname] = dict(a[fname]); a[fname][key] = val
                    else:
                        a["tree"] = set_on(doc["tree"], p, field, key, val)
                    b["tree"] = set_on_members(doc["tree"], p, field, key, val)
                    orc.compare_docs("%s-on-%s" % (fname, kind), "container:%s:%s:%s" % (fname, key, kind),
                                     "%s %s=%r on %s vs on each contained function" % (fname, key, val, kind),
                                     a, b, base_tree=base_tree)
        # ---- sibling unaffected: customise class Xc only; files of class Yc must equal the base run
        xp = [p for p, it in conts if it[1] == "Xc"]
        for key, val in opt_cases[:3 if not thorough else None]:
            if not xp:
                break
            a = copy.deepcopy(doc)
            a["tree"] = set_on(doc["tree"], xp[0], 2, key, val)
            ta, ea, ya = run_doc(a, scr, "sib%d" % orc.n)
            ctx.count(1)
            orc.kinds["sibling"] += 1
            orc.n += 1
            if ea:
                continue
            for fn_, data in base_tree.items():
                if "Yc" in fn_ and ta.get(fn_) != data:
                    ctx.fail("sibling:%s" % key, "option %s=%r on class Xc changed the sibling class file %s" % (key, val, fn_),
                             {"kind": "sibling", "first": ya, "second": doc_yaml(doc), "file": fn_})
                    break
            else:
                ctx.nontrivial("sibling:%s:%d" % (key, li))
        # ---- wrap_python / wrap_lua / wrap_c / wrap_fortran: each node reads them from its own scope and containers
        # are wrapped when something inside is.  Expected equivalence: with wrap_L off for the library, switching it on
        # on a container equals switching it on on every function declared inside it (whole output directories).
        wraps = ["wrap_python", "wrap_lua", "wrap_c", "wrap_fortran"]
        for wl in (wraps if thorough else [wraps[(li + j) % 4] for j in range(2)]):
            off = copy.deepcopy(doc)
            off["options"] = dict(off["options"]); off["options"][wl] = False
            off_tree, eoff, _ = run_doc(off, scr, "woff%d%s" % (li, wl))
            if eoff:
                ctx.note("wrap_off_rejected_%d_%s" % (li, wl), eoff)
                continue
            # domain: the container holds at least one function the L wrapper actually wraps (Shroud switches a function's
            # own flag off for argument kinds a wrapper does not implement; a container left with nothing wrappable still
            # writes its empty module when the flag is written on it, which is not an option-scope matter)
            on = copy.deepcopy(off)
            on["options"][wl] = True
            on_tree, eon, _ = run_doc(on, scr, "won%d%s" % (li, wl))
            if eon:
                continue
            pat = {"wrap_lua": lambda f: f.startswith("lua"), "wrap_python": lambda f: f.startswith("py"),
                   "wrap_c": lambda f: f.startswith("wrap") and f.endswith((".h", ".c", ".cpp", ".hpp")),
                   "wrap_fortran": lambda f: f.endswith(".f")}[wl]
            ltext = b"\n".join(v for k, v in on_tree.items() if pat(k)).decode(errors="replace")

            def wrapped_names(items):
                out = []
                for it_ in items:
                    if it_[0] == "fn":
                        nm = re.search(r"\+name\((\w+)\)", it_[4])
                        nm = nm.group(1) if nm else it_[1]
                        if re.search(r"(?<![A-Za-z0-9])%s(?![A-Za-z0-9])" % re.escape(nm), ltext):
                            out.append(nm)
                    else:
                        out += wrapped_names(it_[4])
                return out
            for p, it in conts:
                if not wrapped_names(it[4]):
                    wrap_dist["%s.skipped-nothing-wrappable" % wl] += 1
                    continue
                depth_ns = sum(1 for q in range(1, len(p) + 1) if _node_at(off["tree"], p[:q])[0] == "ns")
                if (not thorough and depth_ns < 2 and r.random() < 0.35 and not any(k[0] != "fn" for k in it[4])):
                    continue    # quick: always the nested placements, a sample of the flat ones
                a = copy.deepcopy(off); b = copy.deepcopy(off)
                a["tree"] = set_on(off["tree"], p, 2, wl, True)
                b["tree"] = set_on_members(off["tree"], p, 2, wl, True)
                wrap_dist["%s.%s.nsdepth%d" % (wl, it[0], depth_ns)] += 1
                orc.compare_docs("%s-on-%s" % (wl, it[0]), "wrap:%s:%s" % (wl, it[0]),
                                 "option %s=True on %s (library: off) vs on each contained function" % (wl, it[0]),
                                 a, b, base_tree=off_tree)
        # ---- empty block inserted around a run of declarations (JSON compared too: no node records a block)
        conts2 = [((), None)] + [(p, it) for p, it in conts]
        by_kind = collections.OrderedDict()
        for p_, it_ in conts2:
            kd = "library" if it_ is None else ("cls-template" if it_[0] == "cls" and len(it_) > 5 and it_[5].get("template")
                                                else "cls-cpp_if" if it_[0] == "cls" and len(it_) > 5 and it_[5].get("cpp_if")
                                                else it_[0])
            by_kind.setdefault(kd, []).append((p_, it_))
        targets = [(kd, r.choice(v)) for kd, v in by_kind.items()]
        if not thorough and li < 2:
            targets = targets[:2]
        targets += [("random", r.choice(conts2)) for _ in range(3 if thorough else 0)]
        for kd, (p, _it) in targets:
            stats["empty_block_in_" + kd] += 1

            def wrap(items, path=()):
                if path == p:
                    # around everything, or around a random run of declarations
                    i = 0 if r.random() < 0.5 else r.randrange(0, len(items))
                    j = len(items) if i == 0 and r.random() < 0.7 else r.randrange(i, len(items)) + 1
                    return items[:i] + [("block", "Be", {}, {}, items[i:j])] + items[j:]
                out = []
                for idx, it in enumerate(items):
                    if it[0] != "fn":
                        it = it[:4] + (wrap(it[4], path + (idx,)),) + tuple(it[5:])
                    out.append(it)
                return out
            b = copy.deepcopy(doc)
            b["tree"] = wrap(doc["tree"])
            orc.compare_docs("empty-block", "empty-block:" + kd, "empty block inserted in a %s" % kd, doc, b, skip_json=False)

    ctx.note("oracle_tree_distribution", dict(stats))
    ctx.note("wrap_placement_distribution", dict(wrap_dist))

    _phase('oracle:attrs')
    # ---------- inline attributes vs attrs / fattrs
    for i in range(24 if thorough else 12):
        inline, bare, attrs, fattrs = attr_variants(r) if i >= 12 else attr_variants(_Fixed(i))
        a = {"library": "att", "cxx_header": "att.hpp", "options": {"debug_testsuite": True, "wrap_python": i % 2 == 0},
             "tree": [("fn", "g1", {}, {}, "int {n}(int q)"), ("fn", "h%d" % i, {}, {}, inline)]}
        extra = {}
        if attrs:
            extra["attrs"] = attrs
        if fattrs:
            extra["fattrs"] = fattrs
        b = copy.deepcopy(a)
        b["tree"][1] = ("fn", "h%d" % i, {}, {}, bare, extra)
        orc.compare_docs("attrs", "attrs:%s" % inline.split("(")[0].split()[-1] if False else "attrs:%d" % i,
                         "inline attributes vs attrs/fattrs: %s" % inline, a, b, skip_json="nodecl")

    _guard(ctx, 'oracle_attrs', oracle_attrs, ctx, orc, r, thorough)
    _phase("oracle:locality+aliases")
    _guard(ctx, 'oracle_locality', oracle_locality, ctx, orc, scr, r, thorough, opt_cases, fmt_cases)
    _guard(ctx, 'oracle_aliases', oracle_aliases, ctx, orc, scr, r, thorough, opt_cases, fmt_cases)
    _guard(ctx, 'oracle_format_vs_template', oracle_format_vs_template, ctx, orc, scr, r, thorough)
    _guard(ctx, 'oracle_member_kinds', oracle_member_kinds, ctx, orc, scr, r, thorough, defaults_o)
    _guard(ctx, 'oracle_instantiations', oracle_instantiations, ctx, orc, scr, r, thorough, opt_cases, fmt_cases)

    _phase('oracle:cli+path')
    # ---------- YAML fields vs --option / --language (fresh processes, real command line)
    _guard(ctx, 'oracle_cli_library_scope', oracle_cli_library_scope, ctx, orc, scr, r, thorough, defaults_o)
    _guard(ctx, 'oracle_cli', oracle_cli, ctx, orc, scr, r, thorough, defaults_o)
    _guard(ctx, 'oracle_paths', oracle_paths, ctx, orc, scr, thorough)

    _phase('oracle:create_wrapper')
    # ---------- create_wrapper vs the command line
    for i, withpath in enumerate([False, True] if thorough else [False]):
        doc = {"library": "cw", "cxx_header": "cw.hpp", "options": {"wrap_python": True},
               "tree": [("fn", "w1", {}, {}, "int {n}(int a, double b)"), ("fn", "w2", {}, {}, "void {n}(const char *s)")]}
        text = doc_yaml(doc)
        res = []
        for mode in ("api", "cli"):
            d = os.path.join(scr, "cw%d%s" % (i, mode))
            os.makedirs(os.path.join(d, "out"))
            shroudrun.write_yaml(d, "cw.yaml", text)
            env = dict(os.environ, PYTHONPATH=common.REPO, PYTHONDONTWRITEBYTECODE="1")
            if mode == "api":
                code = ("import shroud; c = shroud.create_wrapper('cw.yaml', outdir='out'%s); "
                        "print(sorted(c.cfiles), sorted(c.ffiles))" % (", path=['.']" if withpath else ""))
                cmd = [sys.executable, "-c", code]
            else:
                cmd = [sys.executable, "-c", "from shroud.main import main; main()", "--outdir", "out"] + \
                      (["--path", "."] if withpath else []) + ["cw.yaml"]
            p = subprocess.run(cmd, cwd=d, env=env, stdout=subprocess.PIPE, stderr=subprocess.STDOUT, text=True, timeout=300)
            res.append((p.returncode, p.stdout, shroudrun.read_tree(d)))
        ctx.count(1)
        orc.kinds["create_wrapper"] += 1
        (rca, outa, ta), (rcb, outb, tb) = res
        if rca != 0 or rcb != 0:
            exc = (outa if rca else outb).strip().split("\n")[-1]
            ctx.fail("create_wrapper:" + exc.split(":")[0], "create_wrapper vs command line: %s" % exc[:200],
                     {"kind": "create_wrapper", "first": text, "second": text, "api_rc": rca, "cli_rc": rcb, "output": (outa if rca else outb)[-600:]})
        else:
            diff = first_diff(ta, tb, skip_json=False)
            if diff:
                ctx.fail("create_wrapper:diff", "create_wrapper vs command line differ in %s (%s)" % diff,
                         {"kind": "create_wrapper", "first": text, "second": text, "file": diff[0]})
            else:
                ctx.nontrivial("create_wrapper:%d" % i)
    _guard(ctx, 'oracle_create_wrapper_sequences', oracle_create_wrapper_sequences, ctx, orc, scr, r, thorough)
    ctx.note("oracle_pairs_by_kind", dict(orc.kinds))
    ctx.note("oracle_pairs_effective", dict(orc.effective))
    ctx.note("oracle_pairs_both_rejected", dict(orc.errors))
    return orc


CW_LIBS = {
    # libraries that need shared C/Fortran helpers (strings, vectors, pointer results) and ones that need none
    "strlib": ["const std::string & {n}(const std::string & name)", "void {n}(std::vector<int> &arg +intent(in))",
               "int * {n}() +dimension(3)", "const char * {n}()"],
    "numlib": ["int {n}(int a, double b)", "void {n}()", "bool {n}(bool flag)"],
    "ptrlib": ["void {n}(int *arr +intent(inout)+dimension(n), int n)", "void {n}(char *s +intent(out)+charlen(20))",
               "double {n}(double *v +intent(in)+rank(1), int nv)"],
    "clslib": None,
}


def _cw_doc(name, r):
    if CW_LIBS[name] is None:
        tree = [("cls", "Thing", {}, {}, [("fn", "k1", {}, {}, "Thing() +name(create)"), ("fn", "k2", {}, {}, "~Thing() +name(destroy)"),
                                          ("fn", "k3", {}, {}, "const std::string & {n}()"), ("fn", "k4", {}, {}, "int * {n}() +dimension(2)")]),
                ("fn", "k5", {}, {}, "void {n}(std::vector<double> &arg +intent(out))")]
    else:
        tree = [("fn", "%s%d" % (name[0], j), {}, {}, d) for j, d in enumerate(CW_LIBS[name])]
    return {"library": name, "cxx_header": name + ".hpp", "options": {"wrap_python": r.random() < 0.5, "wrap_lua": False}, "tree": tree}


def oracle_create_wrapper_sequences(ctx, orc, scr, r, thorough):
    """create_wrapper called several times in ONE process (different libraries, the same library twice): each call's
    output directory and returned file lists must equal a fresh command-line run of that library alone."""
    names = sorted(CW_LIBS)
    docs = {n: doc_yaml(_cw_doc(n, r)) for n in names}
    cli = {}
    env = dict(os.environ, PYTHONPATH=common.REPO, PYTHONDONTWRITEBYTECODE="1")
    for n in names:
        d = os.path.join(scr, "cwseq-cli-" + n)
        os.makedirs(os.path.join(d, "out"))
        shroudrun.write_yaml(d, n + ".yaml", docs[n])
        p = subprocess.run([sys.executable, "-c", "from shroud.main import main; main()", "--outdir", "out",
                            "--cfiles", "cf.txt", "--ffiles", "ff.txt", n + ".yaml"],
                           cwd=d, env=env, stdout=subprocess.PIPE, stderr=subprocess.STDOUT, text=True, timeout=300)
        if p.returncode != 0:
            ctx.note("cwseq_cli_rejected_" + n, p.stdout[-300:])
            cli[n] = None
            continue
        cli[n] = (shroudrun.read_tree(os.path.join(d, "out")), open(os.path.join(d, "cf.txt")).read().split(),
                  open(os.path.join(d, "ff.txt")).read().split())
    seqs = [["strlib", "numlib", "strlib"], ["clslib", "ptrlib", "numlib", "clslib"]]
    for _ in range(4 if thorough else 1):
        seqs.append([r.choice(names) for _ in range(r.randrange(2, 5))])
    lens = collections.Counter()
    for si, seq in enumerate(seqs):
        if any(cli[n] is None for n in seq):
            continue
        d = os.path.join(scr, "cwseq-api-%d" % si)
        os.makedirs(d)
        calls = []
        for ci, n in enumerate(seq):
            shroudrun.write_yaml(d, n + ".yaml", docs[n])
            os.makedirs(os.path.join(d, "o%d" % ci))
            calls.append((n + ".yaml", "o%d" % ci))
        code = ("import json, shroud\nres = []\n"
                "for y, o in %r:\n    c = shroud.create_wrapper(y, outdir=o)\n    res.append([list(c.cfiles), list(c.ffiles)])\n"
                "print('RESULT' + json.dumps(res))\n" % (calls,))
        p = subprocess.run([sys.executable, "-c", code], cwd=d, env=env, stdout=subprocess.PIPE, stderr=subprocess.STDOUT,
                           text=True, timeout=600)
        ctx.count(len(seq))
        orc.kinds["create_wrapper_sequence_calls"] += len(seq)
        lens[len(seq)] += 1
        replay = {"kind": "create_wrapper", "sequence": seq, "first": "\n---\n".join(docs[n] for n in seq), "second": ""}
        if p.returncode != 0:
            exc = p.stdout.strip().split("\n")[-1]
            ctx.fail("create_wrapper-seq:" + exc.split(":")[0], "create_wrapper sequence %s: %s" % (seq, exc[:200]),
                     dict(replay, output=p.stdout[-600:]))
            continue
        lists = json.loads([l for l in p.stdout.split("\n") if l.startswith("RESULT")][0][6:])
        bad = False
        for ci, n in enumerate(seq):
            tree = shroudrun.read_tree(os.path.join(d, "o%d" % ci))
            # the generated setup.py quotes the output directory name: same name on both sides
            tree = {k: v.replace(("'o%d/" % ci).encode(), b"'out/") for k, v in tree.items()}
            ctree, ccf, cff = cli[n]
            diff = first_diff(tree, ctree, skip_json=False)
            what = None
            if diff:
                what = "output of call %d (%s) differs from the command line in %s (%s)" % (ci + 1, n, diff[0], diff[1])
            elif ([os.path.relpath(x, "o%d" % ci) for x in lists[ci][0]] != [os.path.relpath(x, "out") for x in ccf]
                  or [os.path.relpath(x, "o%d" % ci) for x in lists[ci][1]] != [os.path.relpath(x, "out") for x in cff]):
                what = "config.cfiles/ffiles of call %d (%s) = %s / %s, command line --cfiles/--ffiles = %s / %s" % (
                    ci + 1, n, lists[ci][0], lists[ci][1], ccf, cff)
            if what:
                bad = True
                ctx.fail("create_wrapper-seq:call%d" % (ci + 1), "create_wrapper sequence %s: %s" % (seq, what),
                         dict(replay, call=ci + 1, library=n))
                break
        if not bad:
            ctx.nontrivial("create_wrapper-seq:%s" % ",".join(seq))
    ctx.note("create_wrapper_sequence_lengths", dict(lens))
    ctx.note("create_wrapper_sequences", seqs)


class _Fixed:
    """rng stand-in: choice() returns the i-th element (so every attribute case is visited once)"""
    def __init__(self, i):
        self.i = i

    def choice(self, seq):
        return seq[self.i % len(seq)]


def oracle_corpus_libraries(ctx, scr, fs_options, defaults_o, names):
    """thorough: on upstream regression libraries, a function-scoped option given at library level
    (--option) equals the same option written on every function declaration of the YAML file."""
    n = 0
    for name in names:
        ent = [e for e in shroudrun.CORPUS if e[0] == name]
        if not ent:
            continue
        _, y, extra = ent[0]
        src = yaml.safe_load(open(shroudrun.corpus_yaml(y)))
        if not isinstance(src, dict) or "declarations" not in src:
            continue
        for opt in ("F_force_wrapper", "C_force_wrapper", "F_string_len_trim"):
            if opt not in fs_options:
                continue
            val = alt_value(opt, defaults_o.get(opt))

            def has_local(nodes):
                for nd in nodes or []:
                    if isinstance(nd, dict):
                        if opt in (nd.get("options") or {}):
                            return True
                        if has_local(nd.get("declarations")):
                            return True
                return False
            if has_local(src.get("declarations")) or opt in (src.get("options") or {}):
                continue  # a nearer definition exists: outside "setting it on each" (push) without more care

            def on_fns(nodes):
                out = []
                for nd in nodes or []:
                    nd = dict(nd)
                    decl = nd.get("decl", "")
                    if "declarations" in nd:
                        nd["declarations"] = on_fns(nd["declarations"])
                    is_container = ("block" in nd or decl.lstrip().startswith(("class ", "namespace ", "struct ", "enum ", "typedef ",
                                                                               "template<typename T> class", "template<typename T> struct"))
                                    or "declarations" in nd)
                    if "decl" in nd and not is_container and "(" in decl:
                        o = dict(nd.get("options") or {}); o[opt] = val
                        nd["options"] = o
                    out.append(nd)
                return out
            a = dict(src); a["options"] = dict(src.get("options") or {}); a["options"][opt] = val
            b = dict(src); b["declarations"] = on_fns(src["declarations"])
            opts, lang, wv = shroudrun.parse_cmdline(extra)
            res = []
            for tag, docx in (("a", a), ("b", b)):
                d = os.path.join(scr, "corp-%s-%s-%s" % (name, opt, tag))
                os.makedirs(os.path.join(d, "out"))
                p = shroudrun.write_yaml(d, y + ".yaml", yaml.safe_dump(docx, default_flow_style=False, sort_keys=False))
                cfg, exc, _ = shroudrun.run_inproc([p], os.path.join(d, "out"), options=["debug_testsuite=true"] + opts,
                                                   language=lang, write_version=wv)
                res.append((None if exc else shroudrun.read_tree(os.path.join(d, "out")),
                            "%s: %s" % (type(exc).__name__, str(exc)[:200]) if exc else None, p))
            ctx.count(1)
            n += 1
            (ta, ea, pa), (tb, eb, pb) = res
            if ea or eb:
                if ea != eb:
                    ctx.note("corpus_pair_rejected_%s_%s" % (name, opt), [ea, eb])
                continue
            diff = first_diff(ta, tb)
            if diff:
                ctx.fail("corpus-container:%s:%s" % (name, opt),
                         "regression library %s: option %s=%r at library level vs on every function differ in %s (%s)" % (
                             name, opt, val, diff[0], diff[1]),
                         {"kind": "corpus-library", "first": open(pa).read(), "second": open(pb).read(), "file": diff[0]})
            else:
                ctx.nontrivial("corpus-container:%s:%s" % (name, opt))
    ctx.note("corpus_library_pairs", n)


# =====================================================================================
# =====================================================================================
# (D5) FunctionNode.__init__: attrs / fattrs merge and fortran_generic copies vs model (driver op `fa`)
# =====================================================================================
FA_TYPES = ["int {n}", "int *{n}", "double *{n}", "double {n}", "const char *{n}", "long {n}", "float *{n}"]
FA_INLINE = ["+intent(in)", "+intent(out)", "+intent(inout)", "+rank=1", "+rank(2)", "+value", "+dimension(n)", "+len=30",
             "+hidden", "+intent(out)+intent(in)", "+custom(a(b)c)"]
FA_BLOCK_VALUES = {"intent": ["in", "out", "inout"], "rank": [1, 2, "1"], "value": [True], "dimension": ["n", "3", "(n)"],
                   "len": [30, "30"], "hidden": [True], "deref": ["pointer", "raw"], "custom": ["x y", 1.5]}
FA_NOT_DICT = ["in", 3, True, ["intent"], None]


def gen_fn_case(r):
    """-> (declaration dict for create_library_from_dictionary, list of generic decl texts)"""
    names = r.sample(["a", "b", "c", "d", "e"], r.randrange(0, 5))
    def arg(n):
        t = r.choice(FA_TYPES).format(n=n)
        return t + (" " + "".join(r.sample(FA_INLINE, r.randrange(1, 3))) if r.random() < 0.5 else "")
    decl = "%s fa(%s)%s" % (r.choice(["void", "int", "int *", "double"]), ", ".join(arg(n) for n in names),
                            " " + "".join(r.sample(FA_INLINE[3:9], r.randrange(1, 3))) if r.random() < 0.3 else "")
    d = {"decl": decl}
    def block():
        ks = r.sample(sorted(FA_BLOCK_VALUES), r.randrange(0, 4))
        return {k: r.choice(FA_BLOCK_VALUES[k]) for k in ks}
    c = r.random()
    if c < 0.75:
        grp = {}
        for n in r.sample(["a", "b", "c", "d", "e", "zz"], r.randrange(0, 4)):
            grp[n] = r.choice(FA_NOT_DICT) if r.random() < 0.07 else block()
        d["attrs"] = grp
    if r.random() < 0.5:
        d["fattrs"] = block()
    gens = []
    for _ in range(r.choice([0, 0, 1, 2, 3])):
        gn = r.sample(["a", "b", "c", "d", "e", "qq"], r.randrange(1, 3))
        gens.append("(" + ", ".join(arg(n) for n in gn) + ")")
    if gens:
        d["fortran_generic"] = [{"decl": g} for g in gens]
    return d


class _Intern:
    def __init__(self):
        self.ids = {}

    def __call__(self, x):
        return self.ids.setdefault(x, len(self.ids) + 1)


def _enc_av(v):
    if v is True:
        return "T"
    if v is None:
        return "N"
    if isinstance(v, bool):
        return "s:" + common.enc("False")
    if isinstance(v, int):
        return "i:" + common.enc(str(v))
    if isinstance(v, float):
        return "f:" + common.enc(repr(v))
    return "s:" + common.enc(str(v))


def _enc_adict(d, it):
    # Declaration.attrs is a defaultdict(lambda: None): reading a name inserts None, which readers cannot tell from absent
    items = [(k, v) for k, v in d.items() if k != "__line__" and v is not None]
    return ";".join("%d=%s" % (it("k:" + k), _enc_av(v)) for k, v in items) if items else "~"


def _enc_params(ps, it):
    def ty(a):
        try:
            return a.gen_decl(attrs=False, name="_")
        except Exception:
            return str(getattr(a.typemap, "name", "?")) + ("*" if a.is_pointer() else "")
    return "|".join("%d/%d/%s" % (it("n:%s" % a.name), it("t:" + ty(a)), _enc_adict(a.attrs, it)) for a in ps) if ps else "-"


def fn_case_request_and_real(d):
    """request for the model from the REAL parse of the declaration texts (Parser.attribute is tied by `at`), and the
    real FunctionNode built through ast.create_library_from_dictionary"""
    from shroud import ast, declast
    it = _Intern()
    buf = io.StringIO()
    with contextlib.redirect_stdout(buf):
        lib0 = ast.LibraryNode()
        a0 = declast.check_decl(d["decl"], namespace=lib0)
        gen0 = []
        for g in d.get("fortran_generic", []):
            parser = declast.Parser(g["decl"], lib0)
            gen0.append(parser.parameter_list())
    req = ["fa", _enc_params(a0.params, it), _enc_adict(a0.attrs, it)]
    if "attrs" in d:
        ents = []
        for n, v in d["attrs"].items():
            ents.append("%d>%s" % (it("n:%s" % n), _enc_adict(v, it) if isinstance(v, dict) else "X"))
        req.append("|".join(ents) if ents else "E")
    else:
        req.append("N")
    req.append(_enc_adict(d["fattrs"], it) if "fattrs" in d else "N")
    for g in gen0:
        req.append(_enc_params(g, it))
    try:
        with contextlib.redirect_stdout(buf):
            lib = ast.create_library_from_dictionary({"library": "fa", "declarations": [copy.deepcopy(d)]})
        fn = lib.functions[0]
        out = ["ok", _enc_params(fn.ast.params, it), _enc_adict(fn.ast.attrs, it)]
        for g in fn.fortran_generic:
            out.append(_enc_params(g.decls, it))
        real = " ".join(out)
    except RuntimeError as e:
        m = re.search(r"attrs for argument '([^']*)' must be a dictionary", str(e))
        real = "notdict %d" % it("n:%s" % m.group(1)) if m else "crash RuntimeError " + str(e)[:80]
    except Exception as e:
        real = "crash " + type(e).__name__
    return " ".join(req), real


# =====================================================================================
# (D6) the library's option scope after the command-line merge vs model (driver op `lo`)
# =====================================================================================
LO_NAMES = ["debug", "wrap_python", "PY_array_arg", "F_CFI", "x", "literalinclude", "literalinclude2", "literalinclude"]


def real_library_options(scr, yopts, ylang, opts, lang, keys):
    """main_with_args up to and including the construction of the library; -> its option scope restricted to keys"""
    from shroud import main as smain
    doc = collections.OrderedDict(library="tt")
    if yopts == "Z":
        doc["options"] = None
    elif yopts != "A":
        doc["options"] = dict(yopts)
    if ylang is not None:
        doc["language"] = ylang
    path = shroudrun.write_yaml(scr, "m.yaml", yaml.safe_dump(dict(doc), default_flow_style=False, sort_keys=False))
    args = shroudrun.make_args([path], scr, options=opts, language=lang)
    got = {}
    saved = smain.ast.create_library_from_dictionary

    def capture(node):
        got["lib"] = saved(node)
        raise _Captured()

    smain.ast.create_library_from_dictionary = capture
    buf = io.StringIO()
    try:
        with contextlib.redirect_stdout(buf):
            smain.main_with_args(args)
    except _Captured:
        pass
    except (Exception, SystemExit) as e:
        return "crash " + type(e).__name__
    finally:
        smain.ast.create_library_from_dictionary = saved
    if "lib" not in got:
        return "crash no-library-created"
    loc = _scope_locals(got["lib"].options)
    items = [(k, v) for k, v in loc.items() if k in keys]
    return "ok " + (";".join("%s=%s" % (common.enc(k), _enc_cval(v)) for k, v in items) if items else "~")


def _scope_locals(scope):
    return collections.OrderedDict((k, v) for k, v in scope.__dict__.items() if not k.startswith("_Scope__"))


def library_default_options():
    from shroud import ast
    buf = io.StringIO()
    with contextlib.redirect_stdout(buf):
        return _scope_locals(ast.LibraryNode().options)


# =====================================================================================
# (D7) the search path of main_with_args on a real directory tree vs model over the set of existing files (op `sp`)
# =====================================================================================
def real_splicer_file(work, path_args, name):
    """runs main_with_args in cwd=work with a description that names one splicer file; -> the file it reads"""
    from shroud import main as smain
    ydir = os.path.join(work, "_in")
    os.makedirs(ydir, exist_ok=True)
    odir = os.path.join(work, "_out")
    os.makedirs(odir, exist_ok=True)
    ypath = shroudrun.write_yaml(ydir, "sp.yaml", yaml.safe_dump(
        {"library": "sp", "options": {"wrap_python": False, "wrap_lua": False}, "splicer": {"f": [name]}}, sort_keys=False))
    args = shroudrun.make_args([ypath], odir)
    args.path = list(path_args)
    got = {}
    saved = smain.splicer.get_splicers

    def capture(fullname, out):
        got["f"] = fullname
        raise _Captured()

    smain.splicer.get_splicers = capture
    cwd = os.getcwd()
    buf = io.StringIO()
    try:
        os.chdir(work)
        with contextlib.redirect_stdout(buf):
            smain.main_with_args(args)
    except _Captured:
        pass
    except RuntimeError as e:
        return "none" if "File not found" in str(e) else "crash RuntimeError"
    except (Exception, SystemExit) as e:
        return "crash " + type(e).__name__
    finally:
        os.chdir(cwd)
        smain.splicer.get_splicers = saved
    return "some " + common.enc(got["f"]) if "f" in got else "crash nothing-read"


def gen_search_case(r, work, i):
    """a directory tree under work/<i>/ with the file in some directories; path arguments in several spellings"""
    base = os.path.join(work, "s%d" % i)
    os.makedirs(base)
    name = r.choice(["x.f", "sub/x.f", "x.f"])
    dirs = ["d0", "d1", "d2", "d3"]
    has = {d: r.random() < 0.4 for d in dirs}
    for d in dirs:
        os.makedirs(os.path.join(base, d, "sub"))
        if has[d]:
            open(os.path.join(base, d, name), "w").write("! splicer begin module_top\n! splicer end module_top\n")
    in_cwd = r.random() < 0.3
    os.makedirs(os.path.join(base, "sub"), exist_ok=True)
    if in_cwd:
        open(os.path.join(base, name), "w").write("! splicer begin module_top\n! splicer end module_top\n")
    if r.random() < 0.1:
        os.makedirs(os.path.join(base, "d1", name), exist_ok=True) if not has["d1"] else None   # a directory of that name is no file
    def spell(d):
        return r.choice([d, d + "/", "./" + d, os.path.join(base, d), d + "//", "nonexistent", "", "."])
    path_args = []
    for _ in range(r.choice([0, 1, 1, 2, 3])):
        path_args.append(":".join(spell(r.choice(dirs)) for _ in range(r.randrange(1, 4))))
    if r.random() < 0.1:
        name = os.path.join(base, r.choice(dirs), name)      # absolute name: the path is not consulted
    return base, path_args, name



def run(ctx):
    thorough = ctx.tier == "thorough"
    data, changed = extract_cli.regenerate()
    ctx.note("gen_cli", {"changed": changed, "parser_fields": len(data["defaults"]), "wrapper_assignments": len(data["assigns"]),
                         "fields_read": len(data["reads"])})
    _PHASES.clear(); _T[0] = 0.0
    _phase("lean")
    reads, changed2 = extract_optreads.regenerate()
    ctx.static_reads = reads
    cls_count = collections.Counter("%s.%s" % (k, c) for k, n, c, o, s_ in reads)
    ctx.note("gen_optreads", {"changed": changed2, "reads": len(reads), "by_kind_and_owner": dict(cls_count),
                              "cached_on_objects": sorted(set("%s.%s @ %s" % c for c in extract_optreads.CACHED))})
    ok = ctx.lean(MODULES, THEOREMS, extra_targets=("drv_scope",))
    drv = common.Driver("drv_scope")
    ctx.cov["trusted_base"] = [
        "Lean 4.33.0 kernel; axioms within {propext, Classical.choice, Quot.sound}",
        "hand-written model Model/Scope.lean (util.Scope heap, option/format scope trees, Parser.attribute, --option/--language merge, "
        "search path), tied by differential correspondence through drv_scope except searchPath (oracle only)",
        "tools/extract_cli.py: AST scan of shroud/main.py (add_argument dests/defaults/append actions, create_wrapper assignments, "
        "args.<field> reads, class Config attributes)",
        "tools/extract_optreads.py: AST scan of shroud/*.py for option/format reads with owner classification (aliases, eval_template, "
        "scope parameters); validated each run against the Scope read trace; template-string format reads are outside it",
        "corpus/c14.txt baseline of function-scoped options/format fields (measured with the full trace; leaving it is reported)",
        "PyYAML scalar resolution (a YAML value is compared with the coerced command-line text where YAML yields the same bool/int/str)",
    ]
    ctx.cov["rule"] = ("scope programs: seeded random op sequences (new/get/has/get-default/set/setdefault/update/inlocal/delattrs/clone/"
                       "reparent/eval_template), non-trivial = a lookup answered by a parent or a RecursionError; trees: generated "
                       "descriptions (blocks nested in blocks/classes/namespaces, options+format on every level) built by "
                       "ast.create_library_from_dictionary, non-trivial = a function inherits a value; attribute texts: non-trivial = an "
                       "attribute parsed or a parse error; CLI merges: non-trivial = coercion, override or crash; static-vs-dynamic: one "
                       "evaluation per traced option; oracle pairs: non-trivial = outputs equal AND (where a base run exists) different "
                       "from the uncustomised base; pairs rejected identically by Shroud on both sides are counted separately")
    ctx.assumptions += [
        "theorems are about the Lean model and the regenerated tables; the model is validated against the code by differential testing on "
        "generated inputs only",
        "option keys exclude the name-mangled slots _Scope__parent/_Scope__hidden",
        "container = members is checked on outputs for the baseline of options/format fields read from function (or argument) scopes only "
        "(quick: baseline; thorough: baseline + measured) and, separately, for wrap_python/wrap_lua/wrap_c/wrap_fortran with the library "
        "level off; other options read at container level (doxygen, debug, literalinclude, file name templates ...) and format fields "
        "that Shroud computes per function unless set locally (function_suffix, C_name, F_name_impl ...) are outside that equivalence",
        "members = every contained function that has no nearer definition of the key (push semantics of the Lean model)",
        "the JSON debug dump is excluded from container/member comparisons; for attribute pairs it is compared without the quoted "
        "declaration text and without attribute dictionaries holding only a YAML line number",
        "command-line option values are text coerced to bool (true/True/false/False), int (ASCII digit strings) or str: equivalence "
        "with a YAML field holds where YAML resolves the scalar to that same value (not for yes/on/1.5/negative numbers)",
        "attribute pairs rejected by Shroud are required to be rejected on both sides with the same exception type only",
        "format-vs-template is checked where the field is derived on that node (struct-only fields are skipped on a class) and on nodes "
        "without nested containers of the same kind (a template option is inherited by nested namespaces/classes, a format field is "
        "re-derived there)",
        "namespace-/class-scoped option sets come from corpus/c14.txt (full trace); an option leaving them is reported",
        "wrap_L on a container vs on its functions is compared only for containers holding at least one function the L wrapper "
        "implements (Shroud clears a function's own flag for unsupported argument kinds, e.g. std::vector in Lua; a container left with "
        "nothing wrappable still writes its empty module when the flag is written on it)",
        "locality is checked on sibling namespaces, whose C/Fortran/Python output goes to files of their own; shared files "
        "(types<lib>.h, util<lib>) are not attributed to either",
    ]
    scr = common.scratch("shroudverif-c14-")
    try:
        _run(ctx, thorough, ok, drv, scr)
    finally:
        _phase("end")
        ctx.note("phase_seconds", {k: v for k, v in _PHASES.items() if k != "_cur"})
        common.rmtree(scr)


def _run(ctx, thorough, ok, drv, scr):
    r = common.rng("c14")
    reqs, impl, tags = [], [], []

    _phase('tie:scope')
    # ---------------- D1 scope programs
    nprog = 4000 if thorough else 800
    for _ in range(nprog):
        ops = gen_scope_program(r, r.randrange(4, 40))
        reqs.append("sc " + " ".join(ops))
        impl.append(real_scope_program(ops))
        tags.append("sc")
    _phase('tie:trees')
    # ---------------- D2 trees
    ntree = 400 if thorough else 80
    tree_fn_orders = 0
    tie_stats = collections.Counter()
    for _ in range(ntree):
        items = gen_tree(r)
        topo = {"zq%d" % k: r.randrange(1, 90) for k in r.sample(range(1, 5), r.randrange(0, 3))}
        topf = {"zq%d" % k: r.randrange(1, 90) for k in r.sample(range(1, 5), r.randrange(0, 3))}
        try:
            (ro, rf), order = real_tree(items, topo, topf)
        except Exception as e:  # generated description rejected by the parser: not a scope matter
            ctx.note("tree_rejected", "%s: %s" % (type(e).__name__, str(e)[:120]))
            continue
        tree_stats(items, stats=tie_stats)
        for which, real, top in (("o", ro, topo), ("f", rf, topf)):
            reqs.append("tr 1,2,3,4 %s %s" % (_encp(_zq(top)), " ".join(tree_to_model(items, which))))
            impl.append(real)
            tags.append("tr")
        tree_fn_orders += 1
    _phase('tie:attrs')
    # ---------------- D3 attributes
    nattr = 3000 if thorough else 600
    for i in range(nattr):
        text = gen_attr_text(r) if i >= len(ATTR_PIECES) else ATTR_PIECES[i]
        try:
            toks, res = real_attribute(text)
        except RuntimeError:
            continue  # tokenizer error (C09's subject)
        except Exception as e:
            toks, res = [], "crash " + type(e).__name__
        reqs.append("at " + " ".join("%s:%s" % (t.typ, common.enc(t.value)) for t in toks) if toks else "at")
        impl.append(res)
        tags.append("at")
    _phase('tie:cli')
    # ---------------- D4 CLI merge
    ncl = 300 if thorough else 60
    names = ["debug", "wrap_python", "PY_array_arg", "F_CFI", "x"]
    vals = ["true", "True", "false", "False", "TRUE", "list", "", "a=b", "0", "yes", "100", "007", "1e3", "-1"]
    for i in range(ncl):
        yo = r.choice(["A", "Z", "D", "D", "D"])
        if yo == "D":
            yo = {n: r.choice([True, False, "list", "q", 72]) for n in r.sample(names, r.randrange(0, 3))}
        ylang = r.choice([None, "c", "c++"])
        lang = r.choice([None, None, "c", "c++", ""])
        opts = []
        for _ in range(r.randrange(0, 4)):
            opts.append(r.choice(names) + "=" + r.choice(vals) if r.random() < 0.93 else r.choice(names))
        d = os.path.join(scr, "m%d" % i)
        os.makedirs(d)
        reqs.append("cl %s %s %s %s" % (enc_yopts(yo), "N" if ylang is None else common.enc(ylang),
                                        "N" if lang is None else common.enc(lang), " ".join(common.enc(o) for o in opts)))
        impl.append(real_merge(d, yo, ylang, opts, lang))
        tags.append("cl")
        common.rmtree(d)

    _phase('tie:fnattrs')
    # ---------------- D5 FunctionNode attrs / fattrs / fortran_generic
    fa_dist = collections.Counter()
    for _ in range(1500 if thorough else 300):
        d = gen_fn_case(r)
        try:
            q, real = fn_case_request_and_real(d)
        except Exception as e:      # the generated text is rejected by the declaration parser: not this tie's subject
            fa_dist["declaration_rejected:" + type(e).__name__] += 1
            continue
        reqs.append(q); impl.append(real); tags.append("fa")
        fa_dist["attrs_group" if "attrs" in d else "no_attrs_group"] += 1
        fa_dist["generic_variants=%d" % len(d.get("fortran_generic", []))] += 1
        if "attrs" in d and d.get("fortran_generic"):
            fa_dist["attrs_group_with_generic"] += 1
        if "fattrs" in d:
            fa_dist["fattrs_group"] += 1
        fa_dist["result:" + real.split(" ")[0]] += 1
    ctx.note("fn_attrs_tie_distribution", dict(fa_dist))
    _phase('tie:libopts')
    # ---------------- D6 the library's option scope after the merge
    dflt_all = library_default_options()
    lo_keys = [k for k in dflt_all if k in LO_NAMES] + ["x"]
    lo_dflt = enc_yopts(collections.OrderedDict((k, dflt_all[k]) for k in dflt_all if k in LO_NAMES))
    lo_dist = collections.Counter()
    for i in range(300 if thorough else 80):
        yo = r.choice(["A", "Z", "D", "D", "D"])
        if yo == "D":
            yo = {n: r.choice([True, False, "list", "", 72, 0]) for n in r.sample(sorted(set(LO_NAMES)), r.randrange(0, 3))}
        ylang = r.choice([None, "c", "c++"])
        lang = r.choice([None, None, "c", "c++"])
        opts = []
        for _ in range(r.randrange(0, 4)):
            opts.append(r.choice(LO_NAMES) + "=" + r.choice(vals))
        d = os.path.join(scr, "lo%d" % i)
        os.makedirs(d)
        reqs.append("lo %s %s %s %s %s %s %s" % (lo_dflt, common.enc("literalinclude"), common.enc("literalinclude2"), enc_yopts(yo),
                                                 "N" if ylang is None else common.enc(ylang),
                                                 "N" if lang is None else common.enc(lang), " ".join(common.enc(o) for o in opts)))
        impl.append(real_library_options(d, yo, ylang, opts, lang, set(lo_keys)))
        tags.append("lo")
        lo_dist["literalinclude_on_command_line" if any(o.startswith("literalinclude=") for o in opts) else
                "literalinclude_in_yaml" if isinstance(yo, dict) and "literalinclude" in yo else "other"] += 1
        common.rmtree(d)
    ctx.note("library_options_tie_distribution", dict(lo_dist))
    _phase('tie:searchpath')
    # ---------------- D7 search path
    sp_dist = collections.Counter()
    spw = os.path.join(scr, "spw")
    os.makedirs(spw)
    for i in range(200 if thorough else 60):
        base, path_args, name = gen_search_case(r, spw, i)
        real = real_splicer_file(base, path_args, name)
        # the abstract file system handed to the model: which of the joined names denote a regular file (asked of the OS)
        cands = []
        for pa in (path_args or ["."]):
            for comp in pa.split(":"):
                cands.append(os.path.join(comp, name))
        cwd = os.getcwd()
        try:
            os.chdir(base)
            files = sorted(set(c for c in cands if os.path.isfile(c)))
        finally:
            os.chdir(cwd)
        reqs.append("sp %s %s %s" % (";".join(common.enc(f) for f in files) if files else "~", common.enc(name),
                                     " ".join(common.enc(p) for p in path_args)))
        impl.append(real)
        tags.append("sp")
        sp_dist["path_args=%d" % len(path_args)] += 1
        sp_dist[real.split(" ")[0]] += 1
        if os.path.isabs(name):
            sp_dist["absolute_name"] += 1
        if any(":" in p for p in path_args):
            sp_dist["colon_separated"] += 1
    common.rmtree(spw)
    ctx.note("search_path_tie_distribution", dict(sp_dist))

    ctx.count(len(reqs))
    disagreements = []
    if drv.available() and ok:
        model = drv.run([q.rstrip() for q in reqs])
        for q, a, b, t in zip(reqs, impl, model, tags):
            if t == "tr":
                # model line: nodes | heap lookups | chain-view lookups ; the two model computations must agree too
                parts = b.split(" | ")
                b_cmp = parts[0] + " | " + parts[1] if len(parts) == 3 else b
                if len(parts) == 3 and parts[1] != parts[2]:
                    disagreements.append({"request": q, "model_heap": parts[1], "model_views": parts[2]})
                if a.rstrip() != b_cmp.rstrip():
                    disagreements.append({"request": q, "impl": a, "model": b_cmp})
                if any(x not in ("-",) for seg in parts[1].split(" ") for x in seg.split(",")):
                    ctx.nontrivial(q)
            elif t == "at":
                if a != canon_model_attr(b):
                    disagreements.append({"request": q, "impl": a, "model": b})
                if "=" in a or a == "error":
                    ctx.nontrivial(q)
            else:
                if a != b:
                    disagreements.append({"request": q, "impl": a, "model": b})
                if t == "sc" and (" F" in a or " R" in a):
                    ctx.nontrivial(q)
                if t == "cl" and (a.startswith("crash") or ";" in a or "b:" in a):
                    ctx.nontrivial(q)
                if t == "fa" and (a.startswith("notdict") or ("N " not in q and q.count(" ") > 4)):
                    ctx.nontrivial(q)
                if t == "lo" and "108,105,116,101,114,97,108" in q.split(" ", 5)[5]:
                    ctx.nontrivial(q)
                if t == "sp" and a.startswith("some"):
                    ctx.nontrivial(q)
        if disagreements:
            ctx.tie_broken("scope-correspondence", disagreements[:5])
    else:
        ctx.tie_broken("scope-correspondence", "driver not built")
    dist = collections.Counter(tags)
    ctx.note("correspondence_cases", dict(dist))
    ctx.note("tie_tree_distribution", dict(tie_stats))
    ccd = collections.Counter()
    for q, a, t in zip(reqs, impl, tags):
        if t == "sc" and " cc:" in q:
            ccd["clone_class_programs"] += 1
            last = a.split(" ")[-1]
            if "|" in last:
                head, chains = last.split("|", 1)
                ncls = head.split(";")[0]
                for ch in chains.split("|"):
                    ids = ch.split(",")
                    ccd["function_under_cloned_block" if ids[0] != ncls else "function_directly_under_class"] += 1
                    if len(ids) >= 3 and ids[0] != ncls and ids[1] != ncls:
                        ccd["through_two_cloned_blocks"] += 1
    ctx.note("clone_class_distribution", dict(ccd))
    ctx.note("disagreements", len(disagreements))
    ctx.note("scope_program_results", {"recursion": sum(1 for a, t in zip(impl, tags) if t == "sc" and " R" in a),
                                       "attr_errors": sum(1 for a, t in zip(impl, tags) if t == "at" and a == "error"),
                                       "cli_crashes": sum(1 for a, t in zip(impl, tags) if t == "cl" and a.startswith("crash"))})
    for q, a in list(zip(reqs, impl))[:: max(1, len(reqs) // 6)][:6]:
        ctx.sample({"request": q[:300], "impl": a[:300]})

    _phase('measure')
    # ---------------- measurement of option scopes
    trace_names = [n for n, _, _ in shroudrun.CORPUS] if thorough else TRACE_QUICK
    res_o, res_f, local_f, defaults_o, defaults_f = measure_scopes(trace_names)
    fs_options = sorted(n for n, c in res_o.items() if set(c) <= {"function"} and n in defaults_o)
    mixed = {n: dict(c) for n, c in sorted(res_o.items()) if not set(c) <= {"function"}}
    fs_formats = sorted(n for n, c in res_f.items()
                        if set(c) <= {"function", "arg"} and n in defaults_f and n not in local_f
                        and isinstance(defaults_f[n], str))
    # The domain must not silently shrink: an option that used to be read only from function scopes and is now read
    # from a container's scope is exactly the defect this property is about.  Baseline = corpus/c14.txt.
    # ---- the dynamic trace validates the static classification of Gen/OptReads.lean
    static = collections.defaultdict(set)
    for k_, n_, c_, o_, s_ in getattr(ctx, "static_reads", []):
        static[(k_, n_)].add(c_)
    problems = {}
    for n_, c_ in sorted(res_o.items()):
        st, dyn = static.get(("options", n_), set()), set(c_)
        why = []
        if not st:
            why.append("read at run time, no syntactic read found")
        if st and st <= {"library"} and not dyn <= {"library"}:
            why.append("statically only library-level owners, read from %s at run time" % sorted(dyn))
        if "library" in dyn and not (st & {"library", "node", "other"}):
            why.append("read from the library's scope at run time, no library/generic owner found")
        if "function" in dyn and not (st & {"node", "other", "block"}):
            why.append("read from a function's scope at run time, no node owner found")
        if why:
            problems[n_] = why
    fmt_seen = sum(1 for n_ in res_f if static.get(("fmtdict", n_)))
    ctx.note("static_vs_dynamic", {"options_traced": len(res_o), "options_inconsistent": len(problems),
                                   "format_fields_traced": len(res_f), "format_fields_with_explicit_static_read": fmt_seen})
    ctx.count(len(res_o))
    if problems:
        ctx.tie_broken("optreads-static-vs-dynamic", problems)
    ctx.note("measured_function_scoped_options", fs_options)
    ctx.note("measured_function_scoped_format_fields", fs_formats)
    base_o, base_f = load_baseline()
    moved = sorted(n for n in base_o if n in res_o and not set(res_o[n]) <= {"function"})
    moved_f = sorted(n for n in base_f if n in res_f and not set(res_f[n]) <= {"function", "arg"})
    moved_k = {}
    for fld, ok_kinds in (("namespace_scoped_options", {"namespace", "other"}), ("class_scoped_options", {"class", "other"})):
        for n_ in extract_optreads.baseline_kind(fld):
            if n_ in res_o and not set(res_o[n_]) <= ok_kinds:
                moved_k[n_] = dict(res_o[n_])
    if moved_k:
        ctx.tie_broken("scope-measurement-member-kinds", {"formerly_namespace_or_class_scoped_now_read_elsewhere": moved_k})
    if moved or moved_f:
        ctx.tie_broken("scope-measurement", {"formerly_function_scoped_now_read_elsewhere":
                                             {n: dict(res_o[n]) for n in moved} | {n: dict(res_f[n]) for n in moved_f}})
    if not thorough:
        # the quick trace covers few configurations, so "only read from function scopes" is over-approximated there:
        # the quick oracle uses the baseline (established with the full trace), the thorough one baseline + measured
        fs_options, fs_formats = [], []
    fs_options = sorted(set(fs_options) | set(n for n in base_o if n in defaults_o))
    fs_formats = sorted(set(fs_formats) | set(n for n in base_f if n in defaults_f))
    ctx.note("baseline_function_scoped_options", base_o)
    ctx.note("traced_configurations", trace_names)
    ctx.note("function_scoped_options", fs_options)
    ctx.note("options_read_elsewhere", mixed)
    ctx.note("function_scoped_format_fields", fs_formats)
    if not fs_options:
        ctx.tie_broken("scope-measurement", "no option was measured as function-scoped")

    # ---------------- oracle
    oracle_pairs(ctx, scr, thorough, fs_options, fs_formats, defaults_o, defaults_f)
    if thorough:
        oracle_corpus_libraries(ctx, scr, fs_options, defaults_o,
                                ["tutorial", "classes", "strings", "pointers-cxx", "vectors", "namespace", "ownership", "example",
                                 "clibrary", "cxxlibrary", "generic", "templates", "scope", "forward", "names"])


def replay(path):
    d = json.load(open(path))
    scr = common.scratch("shroudverif-c14r-")
    try:
        for i, f in enumerate(d.get("failing", [])):
            rp = f["replay"]
            print(f["key"], "::", f["what"])
            if rp.get("kind") in ("cli", "create_wrapper"):
                print(json.dumps(rp, indent=1)[:2000])
                continue
            ta, e1 = run_doc_fresh(rp["first"], "replay", scr, "r%da" % i)
            tb, e2 = run_doc_fresh(rp["second"], "replay", scr, "r%db" % i)
            if ta is None or tb is None:
                print("  run failed:", e1, e2)
            else:
                print("  first differing file:", first_diff(ta, tb))
    finally:
        common.rmtree(scr)
    return 0
