"""C07 Output is a pure, repeatable function of the inputs and command line.

Proof: Props/C07.lean (history independence of update_for_language on the regenerated
statement tables, frame lemmas for overwritten-before-read registries, table theorems that
every registry found by introspection is classified and that no ambient state is consulted).
Tie (T): tools/extract_registry.py regenerates Gen/Registry.lean on every run.
Tie (D): real statements.update_for_language vs the Lean model on all slot shapes x histories.
Oracle: byte comparison of complete output directories (hash seeds, cwd, populated output
directory, in-process sequences vs a fresh process).
"""
import itertools
import json
import os
import random
import subprocess
import sys
from concurrent.futures import ThreadPoolExecutor

from tools import common, shroudrun, extract_registry
from tools.gen import libgen

LEVEL = "proof"
MANIFEST = dict(
    category="proof",
    text="Lean 4 theorems on a registry model: update_for_language is history independent for every history of languages "
         "(with the regenerated table theorem that the real statement tables satisfy its freshness hypothesis), frame lemmas "
         "(a run that writes every key it reads, or reads only stable keys, has output independent of all earlier runs), and "
         "table theorems over data regenerated on every run: every module/class-level mutable container of shroud.* found by "
         "introspection is immutable, run-determined or per-key fresh, and the AST scan finds no use of time/host/env/cwd/"
         "random/id/hash/directory order/set iteration; the file write_output_file leaves behind is a function of its "
         "inputs only, whatever the directory held before (written_file_independent_of_directory, over the C13 model of "
         "write_output_file). Ties: update_for_language on every slot shape x language history; the real write_output_file "
         "into a directory holding an older shorter / longer / empty / identical / unrelated version of the file versus the "
         "model. An implementation-only oracle byte-compares whole output directories across hash seeds, working "
         "directories, environments, pre-populated output directories (another library's output; related versions of the "
         "same files) and in-process sequences incl. libraries with caller-owned results of predefined types. "
         "Round 6: the process-wide state is modelled as insertion-ordered containers (dput/dget) and a run as a program of "
         "stages (reset / put / put-if-absent / emit / emit-key / raise); next_run_independent_of_history and full_run_pure "
         "prove, by induction over ANY list of earlier runs each complete or cut by an error after any number of stages, "
         "that a run keeping the read-after-reset discipline emits the same pieces, raises or not the same way, reports the "
         "same file list and leaves the same bytes in every reported file as a run in a fresh process into any other "
         "directory, under the always-write policy of write_output_file and under write-only-if-changed "
         "(directory_independent_of_prior, writeAll_policy_irrelevant); undisciplined_run_leaks shows the discipline is "
         "needed; emitted_order_is_insertion_order / dget_insertAll: iteration order of a filled container is first-insertion "
         "order of the input and the value the last assigned, for every insertion sequence. The hypotheses are discharged on "
         "regenerated data: real_runs_disciplined / real_runs_frame over the ordered first-event traces (reset, key write, "
         "key read, whole read) of real runs - first in a process and after another library - recorded by tracing containers, "
         "with reset stages where the code has one (global rebinding found by AST scan, dict.clear, update_for_language, "
         "update_stmt_tree, set_library's prune to the import-time helpers when their values are unchanged); "
         "mutable_registries_keep_order: no registry that changes at run time is a set. The enumeration now covers every "
         "module/class attribute that is not deeply immutable (instances, tuples holding mutables, names rebound through "
         "`global`) and raises on a value it cannot classify; objects bound by an earlier run are replaced by a proxy that "
         "raises on use. The oracle also runs histories containing runs that end in an error (AST stage, post-generate stage).",
    design="3 C07, 9.4, 9.9",
    note="Trusted: Lean kernel; the translator (introspective registry enumeration, probe classification on a fixed set of "
         "library pairs, AST scan); that the registry abstraction (RunSpec) fits the emitters' use of each registry - this is "
         "validated by the byte-comparison oracle, not proved. The file system is modelled as a map from names to "
         "contents (open-for-write replaces the contents); PyYAML is not modelled. Not modelled: the values stored in the "
         "registries (the stage model abstracts them; the discipline is about which stage reads what), mutation of objects "
         "nested inside a registry entry (seen only through the digests of the probe, not as trace events), the `render` step "
         "from emitted pieces to file text (an arbitrary function in full_run_pure; its line-level part is C13's model), reads "
         "of stale rebound objects are detected dynamically on the probed pairs, not proved absent; the stage traces are "
         "those of the probed libraries, not of every library; sorted(...) emission sites are covered by the AST scan only.",
    technique="Lean 4 proof (invariant over histories; decide +kernel over regenerated tables) + differential correspondence + byte-comparison oracle",
)
MODULES = ["ShroudVerif.Props.C07"]
THEOREMS = {
    "ShroudVerif.Props.C07": [
        "Shroud.Registry.update_for_language_pure",
        "Shroud.Registry.update_table_pure",
        "Shroud.Registry.update_old_not_pure",
        "Shroud.Registry.slotOfRow_fresh",
        "Shroud.Registry.lang_tables_fresh",
        "Shroud.Registry.out_independent_of_world",
        "Shroud.Registry.out_independent_of_history",
        "Shroud.Registry.registries_classified",
        "Shroud.Registry.no_ambient_state",
        "Shroud.Registry.written_file_independent_of_directory",
        # round 6: process state as order-carrying containers, runs as programs of stages, the output directory
        "Shroud.Registry.dget_dput",
        "Shroud.Registry.keys_dput",
        "Shroud.Registry.keys_insertAll",
        "Shroud.Registry.emitted_order_is_insertion_order",
        "Shroud.Registry.dget_insertAll",
        "Shroud.Registry.execFrom_agree",
        "Shroud.Registry.execFrom_frame",
        "Shroud.Registry.noWrite_take",
        "Shroud.Registry.afterHistory_frame",
        "Shroud.Registry.next_run_independent_of_history",
        "Shroud.Registry.disciplined_take",
        "Shroud.Registry.truncated_run_independent_of_history",
        "Shroud.Registry.undisciplined_run_leaks",
        "Shroud.Registry.writeAll_always_eq",
        "Shroud.Registry.writeP_ifChanged_eq",
        "Shroud.Registry.writeAll_congr",
        "Shroud.Registry.writeAll_policy_irrelevant",
        "Shroud.Registry.planned_isSome_iff",
        "Shroud.Registry.directory_independent_of_prior",
        "Shroud.Registry.full_run_pure",
        "Shroud.Registry.real_runs_disciplined",
        "Shroud.Registry.real_runs_frame",
        "Shroud.Registry.mutable_registries_keep_order",
        "Shroud.Registry.traces_nonvacuous",
    ]
}

QUICK_LIBS = ["tutorial", "clibrary", "classes", "strings", "ownership", "vectors", "struct-c", "templates",
              "struct-class-c", "enum-c", "generic", "namespace"]


def _env(extra=None):
    e = dict(os.environ, PYTHONPATH=common.VERIF + ":" + common.REPO, PYTHONDONTWRITEBYTECODE="1")
    if extra:
        e.update(extra)
    return e


def run_seq(items, env=None, cwd=None):
    """items: list of dicts (corpus/yaml...).  Returns (excs, trees)."""
    dirs = [common.scratch() for _ in items]
    try:
        spec = []
        for it, d in zip(items, dirs):
            it = dict(it)
            it["outdir"] = d
            spec.append(it)
        p = subprocess.run([sys.executable, "-m", "tools.seqrun", json.dumps(spec)], stdout=subprocess.PIPE,
                           stderr=subprocess.PIPE, text=True, env=_env(env), cwd=cwd or common.VERIF, timeout=900)
        if p.returncode != 0:
            raise RuntimeError("seqrun failed: " + p.stderr[-1500:])
        excs = json.loads(p.stdout.strip().split("\n")[-1])
        trees = [shroudrun.read_tree(d) for d in dirs]
        return excs, trees
    finally:
        for d in dirs:
            common.rmtree(d)


def diff_trees(a, b):
    return sorted(f for f in set(a) | set(b) if a.get(f) != b.get(f))


def real_update_history(g, c, x, hist):
    from shroud import statements
    vals = {"generic": ["generic"], "c": ["c"], "cxx": ["cxx"]}   # distinct list objects (identity matters)
    item = {"name": "t"}
    if g:
        item["pre_call"] = vals["generic"]
    if c:
        item["c_pre_call"] = vals["c"]
    if x:
        item["cxx_pre_call"] = vals["cxx"]
    for l in hist:
        statements.update_for_language([item], "cxx" if l == "x" else "c")
    v = item.get("pre_call")
    if v is None:
        return "none"
    for k, o in vals.items():
        if v is o:
            return k
    return "other"


def gen_items(r, scratchdir, n):
    items = []
    for i in range(n):
        lib = libgen.gen_lib(r, name="gl%d" % i, wrap={"wrap_python": r.random() < 0.5, "wrap_lua": r.random() < 0.3})
        y = shroudrun.write_yaml(scratchdir, "gl%d.yaml" % i, lib.yaml())
        items.append({"yaml": y, "label": "gen:gl%d" % i, "text": lib.yaml()})
    # the same library name and class with different literalinclude / cpp_if (stale shadow helper)
    a = ("library: foo\ncxx_header: foo.hpp\noptions:\n  literalinclude: true\ndeclarations:\n- decl: class C1\n"
         "  cpp_if: if defined(USE_C1)\n  declarations:\n  - decl: C1()\n  - decl: void m(int i)\n")
    b = "library: foo\ncxx_header: foo.hpp\ndeclarations:\n- decl: class C1\n  declarations:\n  - decl: C1()\n  - decl: void m(int i)\n"
    # several typedefs whose typemaps name the same header for C and C++ (order of the include group)
    u = ("library: units\ncxx_header: units.hpp\ndeclarations:\n" + "".join(
        "- decl: typedef int %s\n  fields:\n    c_header: %s.h\n    cxx_header: %s.h\n" % (t, t.lower(), t.lower())
        for t in ("LengthId", "MassId", "TimeId", "ChargeId", "SpinId")) +
        "- decl: void combine(LengthId a, MassId b, TimeId c, ChargeId d, SpinId e)\n")
    os.makedirs(os.path.join(scratchdir, "units"), exist_ok=True)
    items.append({"yaml": shroudrun.write_yaml(os.path.join(scratchdir, "units"), "units.yaml", u), "label": "gen:units", "text": u})
    # caller-owned results of predefined types (std::string by value, native pointers with +owner(caller)): wrapc records
    # destructor indices for them; a library processed earlier must not leave any of that behind
    oa = ("library: owna\ncxx_header: owna.hpp\ndeclarations:\n- decl: std::string getNameA()\n"
          "- decl: int *makeInts(int n) +owner(caller)+dimension(n)\n- decl: const std::string * newStr() +owner(caller)\n")
    ob = ("library: ownb\ncxx_header: ownb.hpp\ndeclarations:\n- decl: double *makeReals(int n) +owner(caller)+dimension(n)\n"
          "- decl: std::vector<int> getVec()\n- decl: std::string getNameB()\n- decl: int *otherInts(int n) +owner(caller)+dimension(n)\n")
    # a library that only declares classes: its library-level header has nothing to declare and is not written
    ho = ("library: geom\ncxx_header: geom.hpp\ndeclarations:\n- decl: class Shape\n  declarations:\n  - decl: Shape()\n"
          "  - decl: ~Shape()\n  - decl: double area(double scale)\n- decl: namespace detail\n  declarations:\n"
          "  - decl: class Edge\n    declarations:\n    - decl: Edge()\n    - decl: int index()\n")
    os.makedirs(os.path.join(scratchdir, "hollow"), exist_ok=True)
    items.append({"yaml": shroudrun.write_yaml(os.path.join(scratchdir, "hollow"), "geom.yaml", ho), "label": "gen:hollow", "text": ho})
    # runs that END IN AN ERROR part-way, at two stages of main_with_args: while building the AST (after typemap.initialize
    # and after an earlier class was registered; in C++ and in C mode), and after generate_functions (a YAML splicer file
    # that does not exist: types registered, statement tables updated for the language, helpers filled)
    e1 = ("library: errdecl\ncxx_header: errdecl.hpp\ndeclarations:\n- decl: class Early\n  declarations:\n  - decl: Early()\n"
          "- decl: void broken(int (\n")
    e2 = ("library: errsplice\ncxx_header: errsplice.hpp\nsplicer:\n  c: [no_such_splicer_file.c]\ndeclarations:\n"
          "- decl: class Mid\n  declarations:\n  - decl: Mid()\n  - decl: std::vector<int> values()\n"
          "- decl: std::string midName()\n- decl: int *midInts(int n) +owner(caller)+dimension(n)\n")
    e3 = ("library: errlang\nlanguage: c\ncxx_header: errlang.h\ndeclarations:\n- decl: struct Pt\n  declarations:\n"
          "  - decl: int x\n- decl: void usept(Pt *p)\n- decl: void late(std::string & s)\n")
    for nm, t in (("errDecl", e1), ("errSplice", e2), ("errLang", e3)):
        os.makedirs(os.path.join(scratchdir, nm), exist_ok=True)
        y = shroudrun.write_yaml(os.path.join(scratchdir, nm), nm.lower() + ".yaml", t)
        items.append({"yaml": y, "label": "gen:" + nm, "text": t, "expect_error": True})
    for nm, t in (("ownA", oa), ("ownB", ob)):
        os.makedirs(os.path.join(scratchdir, nm), exist_ok=True)
        y = shroudrun.write_yaml(os.path.join(scratchdir, nm), nm.lower() + ".yaml", t)
        items.append({"yaml": y, "label": "gen:" + nm, "text": t})
    for nm, t in (("shadowA", a), ("shadowB", b)):
        os.makedirs(os.path.join(scratchdir, nm), exist_ok=True)
        y = shroudrun.write_yaml(os.path.join(scratchdir, nm), "foo.yaml", t)
        items.append({"yaml": y, "label": "gen:" + nm, "text": t})
    return items


def label(it):
    return it.get("corpus") or it.get("label")


def strip(it):
    return {k: v for k, v in it.items() if k in ("corpus", "yaml", "options", "language", "path")}


def run(ctx):
    thorough = ctx.tier == "thorough"
    r = common.rng("c07")
    work = common.scratch()
    try:
        gen = gen_items(r, work, 10 if thorough else 4)
        shadow = [g for g in gen if "shadow" in g["label"]]
        own = [g for g in gen if "gen:own" in g["label"]]
        errs = [g for g in gen if g.get("expect_error")]
        # ---------------- (T) regenerate tables, then prove
        info = extract_registry.regenerate(extra_pairs=[(strip(shadow[0]), strip(shadow[1]))])
        ctx.note("translator", {k: v for k, v in info.items() if k != "ambient"})
        ctx.note("ambient_uses", info["ambient"])
        if info["leaks"]:
            ctx.tie_broken("registry-classification", info["leaks"])     # keeps the reason in the replay file
        ok = ctx.lean(MODULES, THEOREMS, extra_targets=("drv_registry", "drv_lines"))
        ctx.cov["trusted_base"] = [
            "Lean 4.33.0 kernel; axioms within {propext, Classical.choice, Quot.sound}",
            "tools/extract_registry.py + tools/regprobe.py (registry enumeration by introspection, probe classification, AST scan)",
            "RunSpec abstraction of how emitters use a registry (validated by the byte-comparison oracle only)",
            "Model/Lines.lean writeOutputFile + the directory-as-map model of open-for-write (tied by running the real write_output_file "
            "into directories that already hold a version of the file)",
        ]
        ctx.cov["rule"] = ("correspondence: every (generic,c,cxx) slot shape x every language history up to length 4/6; oracle: "
                           "corpus + generated libraries, ordered pairs and random longer in-process sequences vs a fresh process, "
                           "two hash seeds, two working directories, populated output directory; a case is non-trivial when the "
                           "run wrote >= 3 files; distinct = distinct (kind, libraries) tuples")
        ctx.assumptions += [
            "registry classification is measured on a fixed set of library pairs (plus one generated pair), not proved for all pairs",
            "the byte-comparison oracle is bounded by the libraries and sequences generated",
        ]

        # ---------------- (D) update_for_language correspondence
        drv = common.Driver("drv_registry")
        reqs, impl = [], []
        maxh = 6 if thorough else 4
        for g, c, x in itertools.product((0, 1), repeat=3):
            for n in range(maxh + 1):
                for h in itertools.product("cx", repeat=n):
                    hs = "".join(h) or "-"
                    reqs.append("ul %d %d %d %s" % (g, c, x, hs))
                    impl.append(real_update_history(g, c, x, h))
        ctx.count(len(reqs))
        if ok and drv.available():
            model = drv.run(reqs)
            bad = [{"request": q, "impl": a, "model": b} for q, a, b in zip(reqs, impl, model) if a != b]
            if bad:
                ctx.tie_broken("update_for_language-correspondence", bad[:5])
            for q in reqs:
                if len(q.split(" ")[-1]) >= 2:
                    ctx.nontrivial(q)
        else:
            ctx.tie_broken("update_for_language-correspondence", "driver not built")
        ctx.sample({"request": reqs[37], "impl": impl[37]})

        # ---------------- (D) write_output_file into a directory that already holds a version of the file
        from tools.props import c13 as _c13
        ldrv = common.Driver("drv_lines")
        PRIORS = {"prefix": lambda t: "".join(t.splitlines(True)[: max(1, len(t.splitlines()) // 2)]),
                  "extended": lambda t: t + "stale line\nanother stale line\n",
                  "first-line": lambda t: "".join(t.splitlines(True)[:1]),
                  "empty": lambda t: "", "same": lambda t: t, "junk": lambda t: "unrelated\n" * 3,
                  "no-final-newline": lambda t: t[:-1]}
        wreqs, wimpl, wkind = [], [], []
        for k in range(240 if thorough else 60):
            comment = r.choice(["//", "!", "#"])
            fname = r.choice(["wrapfoo.cpp", "wrapffoo.f", "typesfoo.h"])
            version = r.choice(["0.12.2", "nowrite-version"])
            copyright = [r.choice(["Copyright (c) 2017", "", "SPDX-License-Identifier: (BSD-3-Clause)"]) for _ in range(r.randrange(0, 3))]
            items = []
            for _ in range(r.randrange(1, 8)):
                items.append(r.choice([1, -1]) if r.random() < 0.2 else _c13.rand_line(r).replace("\r", " "))
            ll, sp, cont = r.choice([20, 72, 132]), "    ", r.choice(["", " &"])
            pk = r.choice(sorted(PRIORS))
            wreqs.append("wof %s %s %s %s %d %s %s %s" % (common.enc(comment), common.enc(fname), common.enc(version),
                                                       common.encs(copyright) if copyright else "~", ll, common.enc(sp), common.enc(cont), _c13.enc_items(items)))
            wimpl.append(_c13.real_wof(comment, fname, version, copyright, ll, sp, cont, items, prior=PRIORS[pk]))
            wkind.append(pk)
        ctx.count(len(wreqs))
        ctx.note("wof_prior_kinds", {k: wkind.count(k) for k in sorted(set(wkind))})
        if ok and ldrv.available():
            wmodel = ldrv.run(wreqs)
            bad = [{"request": q[:400], "prior": pk, "impl": a[:300], "model": b[:300]} for q, a, b, pk in zip(wreqs, wimpl, wmodel, wkind) if a != b]
            for q, a in zip(wreqs, wimpl):
                if a.count(";") >= 3:
                    ctx.nontrivial(("wof-prior", q[:80]))
            if bad:
                ctx.tie_broken("write_output_file-into-populated-directory", bad[:5])
        else:
            ctx.tie_broken("write_output_file-into-populated-directory", "driver not built")

        # ---------------- oracle: byte comparison of output directories
        libs = [{"corpus": n} for n in (QUICK_LIBS if not thorough else [c[0] for c in shroudrun.CORPUS])]
        items = libs + gen
        with ThreadPoolExecutor(14) as ex:
            alone_res = list(ex.map(lambda it: run_seq([strip(it)]), items))
        alone = {}
        for it, (excs, trees) in zip(items, alone_res):
            alone[label(it)] = (excs[0], trees[0])
            ctx.count(1)
            if len(trees[0]) >= 3:
                ctx.nontrivial(("alone", label(it)))
        ctx.sample({"alone": label(items[0]), "files": sorted(alone[label(items[0])][1])[:6]})
        ctx.note("error_runs", {label(e): (alone[label(e)][0] or "NO ERROR (scenario lost its teeth)")[:120] + " / files written before: %d" % len(alone[label(e)][1])
                                for e in errs})

        def check_seq(seq, env=None, cwd=None, kind="seq"):
            excs, trees = run_seq([strip(i) for i in seq], env=env, cwd=cwd)
            ctx.count(1)
            ctx.nontrivial((kind,) + tuple(label(i) for i in seq))
            for pos, (it, exc, tree) in enumerate(zip(seq, excs, trees)):
                ref_exc, ref = alone[label(it)]
                d = diff_trees(tree, ref)
                if d or (exc is None) != (ref_exc is None):
                    prev = [label(i) for i in seq[:pos]]
                    key = "%s:%s:after:%s:%s" % (kind, label(it), ",".join(prev[-1:]), d[0] if d else "exception")
                    ctx.fail(key, "output of %s differs (%s) when run %s (files: %s)" % (
                        label(it), kind, ("after " + ",".join(prev)) if prev else "alone with " + kind, d[:4]),
                        {"sequence": [strip(i) for i in seq], "yaml_texts": {label(i): i["text"] for i in seq if "text" in i},
                         "position": pos, "differing_files": d[:10], "exception": exc, "env": env, "cwd": cwd})

        jobs = []
        # leak-directed: every probe pair on which the classification found a registry carrying state of the earlier run into
        # the later one is byte-compared first (the classification says where to look, the comparison shows the bytes)
        for a_it, b_it in info.get("leak_pairs", []):
            for it in (a_it, b_it):
                it.setdefault("label", it.get("corpus") or os.path.basename(it.get("yaml", "?")))
                if label(it) not in alone:
                    ex1, tr1 = run_seq([strip(it)])
                    alone[label(it)] = (ex1[0], tr1[0])
            jobs.append(([a_it, b_it], None, None, "seq"))
        pairs = list(itertools.permutations(items, 2))
        if not thorough:
            # all ordered pairs over the quick libraries is 240+: take every pair that mixes languages/wrappers plus a sample
            r.shuffle(pairs)
            pairs = pairs[:70] + [(shadow[0], shadow[1]), (shadow[1], shadow[0]), (own[0], own[1]), (own[1], own[0])]
        else:
            r.shuffle(pairs)
            pairs = pairs[:1500] + [(shadow[0], shadow[1]), (shadow[1], shadow[0]), (own[0], own[1]), (own[1], own[0])]
        # histories containing runs that ended in an error: [failing run, library] and [library, failing run, library]
        okitems = [i for i in items if not i.get("expect_error")]
        for e in errs:
            for b in r.sample(okitems, 3) + own[:1] + shadow[1:]:
                pairs.append((e, b))
            jobs.append(([r.choice(okitems), e, r.choice(okitems)], None, None, "seq"))
        jobs.append((errs + [r.choice(okitems)], None, None, "seq"))
        for p in pairs:
            jobs.append((list(p), None, None, "seq"))
        for _ in range(40 if thorough else 3):
            k = r.randrange(3, 9)
            jobs.append(([r.choice(items) for _ in range(k)], None, None, "seq"))
        # hash seeds, cwd, populated directory
        for it in (items if thorough else items[:6] + gen):
            jobs.append(([it], {"PYTHONHASHSEED": "1"}, None, "hashseed1"))
            jobs.append(([it], {"PYTHONHASHSEED": "4242"}, None, "hashseed4242"))
            jobs.append(([it], None, work, "cwd"))
            jobs.append(([it], {"TZ": "Asia/Tokyo", "LANG": "C", "LC_ALL": "C", "HOME": "/nonexistent", "USER": "someone",
                                "COLUMNS": "40", "SHROUD_UNRELATED": "1", "PYTHONHASHSEED": "random"}, None, "environment"))
        units = [g for g in gen if g["label"] == "gen:units"]
        for hs in ("2", "3", "5", "7", "11", "12345"):
            jobs.append((units, {"PYTHONHASHSEED": hs}, None, "hashseed" + hs))
        with ThreadPoolExecutor(14) as ex:
            list(ex.map(lambda j: check_seq(j[0], env=j[1], cwd=j[2], kind=j[3]), jobs))
        # current directory holding look-alike files: a YAML `splicer:` file is found through --path, never
        # through the current directory
        pdir, sdir, edir = (os.path.join(work, n) for n in ("pathdir", "staledir", "emptydir"))
        for d in (pdir, sdir, edir):
            os.makedirs(d)
        ytxt = ("library: gauge\ncxx_header: gauge.hpp\nsplicer:\n  f: [gsplice.f]\n  c: [gsplice.c]\n"
                "declarations:\n- decl: int gfun(int a)\n- decl: void gstr(const std::string & s)\n")
        yp = shroudrun.write_yaml(pdir, "gauge.yaml", ytxt)
        for d, rev in ((pdir, 2), (sdir, 1)):
            open(os.path.join(d, "gsplice.f"), "w").write(
                "! splicer begin module_top\ninteger, parameter :: gauge_revision = %d\n! splicer end module_top\n" % rev)
            open(os.path.join(d, "gsplice.c"), "w").write(
                "// splicer begin CXX_definitions\nstatic int gauge_revision = %d;\n// splicer end CXX_definitions\n" % rev)
        # also plant stale copies of the inputs and of earlier outputs in the stale directory
        open(os.path.join(sdir, "gauge.yaml"), "w").write(ytxt.replace("gfun", "stale_fun"))
        git = {"yaml": yp, "path": [pdir], "label": "gen:gauge", "text": ytxt}
        ex0, tr0 = run_seq([strip(git)], cwd=edir)
        ex1, tr1 = run_seq([strip(git)], cwd=sdir)
        ctx.count(2)
        ctx.nontrivial(("cwd-lookalike", "gauge"))
        dd = diff_trees(tr0[0], tr1[0])
        if dd or ex0 != ex1:
            ctx.fail("cwd-lookalike:%s" % (dd[0] if dd else "exception"),
                     "same absolute arguments, different current directory (holding a stale same-named splicer file): %s differ" % dd[:4],
                     {"yaml": ytxt, "differing_files": dd[:8], "exceptions": [ex0, ex1]})
        # the interpreter's optimisation level is environment too (PYTHONOPTIMIZE / -O strips assert statements and docstrings):
        # same inputs, same bytes - checked on the library that carries user splicers and on two others
        for lvl in ("1", "2"):
            exo, tro = run_seq([strip(git)], env={"PYTHONOPTIMIZE": lvl}, cwd=edir)
            ctx.count(1)
            ctx.nontrivial(("optimize", lvl, "gauge"))
            dd = diff_trees(tr0[0], tro[0])
            if dd or ex0 != exo:
                ctx.fail("environment:PYTHONOPTIMIZE:%s" % (dd[0] if dd else "exception"),
                         "same inputs and arguments under PYTHONOPTIMIZE=%s: %s differ" % (lvl, dd[:4]),
                         {"yaml": ytxt, "differing_files": dd[:8], "exceptions": [ex0, exo], "env": {"PYTHONOPTIMIZE": lvl}})
            for it in items[:2]:
                exo, tro = run_seq([strip(it)], env={"PYTHONOPTIMIZE": lvl})
                ctx.count(1)
                dd = diff_trees(alone[label(it)][1], tro[0])
                if dd:
                    ctx.fail("environment:PYTHONOPTIMIZE:%s:%s" % (label(it), dd[0]),
                             "output of %s differs under PYTHONOPTIMIZE=%s: %s" % (label(it), lvl, dd[:4]),
                             {"library": strip(it), "differing_files": dd[:8], "env": {"PYTHONOPTIMIZE": lvl}})
        if b"gauge_revision = 2" not in tr0[0].get("wrapfgauge.f", b""):
            ctx.note("cwd_lookalike_warning", "splicer from --path not found in the Fortran output (scenario lost its teeth)")
        # populated output directory: run B into a directory that already holds A's output
        for a_it, b_it in [(items[0], items[1]), (items[2], items[0])] + ([(items[3], items[4])] if thorough else []):
            d = common.scratch()
            try:
                e1 = subprocess.run([sys.executable, "-m", "tools.seqrun", json.dumps([dict(strip(a_it), outdir=d)])],
                                    stdout=subprocess.PIPE, stderr=subprocess.PIPE, text=True, env=_env(), cwd=common.VERIF)
                before = shroudrun.read_tree(d)
                e2 = subprocess.run([sys.executable, "-m", "tools.seqrun", json.dumps([dict(strip(b_it), outdir=d)])],
                                    stdout=subprocess.PIPE, stderr=subprocess.PIPE, text=True, env=_env(), cwd=common.VERIF)
                after = shroudrun.read_tree(d)
                ref = alone[label(b_it)][1]
                ctx.count(1)
                ctx.nontrivial(("populated", label(a_it), label(b_it)))
                bad = [f for f in ref if after.get(f) != ref[f]]
                if bad:
                    ctx.fail("populated:%s:%s" % (label(b_it), bad[0]),
                             "files written by %s into a directory already holding %s's output differ from a clean run: %s" % (
                                 label(b_it), label(a_it), bad[:4]), {"first": strip(a_it), "second": strip(b_it), "files": bad[:10]})
            finally:
                common.rmtree(d)
        # populated output directory, second form: the directory already holds files with the generated NAMES whose
        # contents are related to what will be written (an older, shorter version; a longer one; empty; identical; junk)
        hollow = [g for g in gen if g["label"] == "gen:hollow"]
        for b_it in (items[:2] + own[:1] + hollow if not thorough else items[:6] + own + hollow):
            ref_exc, ref = alone[label(b_it)]
            if ref_exc is not None or not ref:
                continue
            d = common.scratch()
            try:
                planted = {}
                for fn in sorted(ref):
                    data = ref[fn]
                    lines = data.split(b"\n")
                    how = r.choice(["prefix", "prefix", "extended", "empty", "same", "junk", "first-line"])
                    if how == "prefix":
                        new = b"\n".join(lines[: max(1, len(lines) // 2)]) + b"\n"
                    elif how == "extended":
                        new = data + b"stale line left by an earlier version\nand another one\n"
                    elif how == "empty":
                        new = b""
                    elif how == "same":
                        new = data
                    elif how == "first-line":
                        new = lines[0] + b"\n"
                    else:
                        new = b"unrelated contents\n" * 3
                    open(os.path.join(d, fn), "wb").write(new.replace(b"<OUTDIR>", d.encode()))
                    planted[fn] = how
                # files this run does NOT write but whose names look generated (left by an earlier version of the library):
                # the sibling of every written file under the other usual extensions
                stale = []
                for fn in sorted(ref):
                    stem, ext = os.path.splitext(fn)
                    for e2 in (".h", ".hpp", ".cpp", ".c", ".f"):
                        sib = stem + e2
                        if e2 != ext and sib not in ref and not os.path.exists(os.path.join(d, sib)) and stem.startswith(("wrap", "types", "util", "py", "lua")):
                            open(os.path.join(d, sib), "w").write("/* left over from an earlier version */\nint stale_%d;\n" % len(stale))
                            stale.append(sib)
                e2 = subprocess.run([sys.executable, "-m", "tools.seqrun", json.dumps([dict(strip(b_it), outdir=d)])],
                                    stdout=subprocess.PIPE, stderr=subprocess.PIPE, text=True, env=_env(), cwd=common.VERIF)
                after = shroudrun.read_tree(d)
                ctx.count(1)
                ctx.nontrivial(("populated-related", label(b_it)))
                bad = [f for f in ref if after.get(f) != ref[f]]
                if bad:
                    ctx.fail("populated-related:%s:%s" % (label(b_it), planted.get(bad[0])),
                             "%s written into a directory that already held a file of that name (%s version) differs from a clean run: %s" % (
                                 bad[0], planted.get(bad[0]), bad[:4]),
                             {"library": strip(b_it), "yaml_text": b_it.get("text"), "planted": {f: planted[f] for f in bad[:10]}, "files": bad[:10],
                              "stale_siblings_planted": stale[:20]})
            finally:
                common.rmtree(d)
    finally:
        common.rmtree(work)


def replay(path):
    d = json.load(open(path))
    for f in d.get("failing", []):
        rp = f["replay"]
        print(f["key"], f["what"])
        if "sequence" in rp:
            excs, trees = run_seq(rp["sequence"], env=rp.get("env"), cwd=rp.get("cwd"))
            e2, t2 = run_seq([rp["sequence"][rp["position"]]])
            print("  differing now:", diff_trees(trees[rp["position"]], t2[0])[:10])
    return 0
