"""C17 Invalid input is rejected with a diagnostic, never by an internal failure.

Proof: lean/ShroudVerif/Props/C17.lean (no-crash for all token lists, nothing left over, `=` needs a value,
documented forms accepted) over the parser model Model/Decl.lean.
Tie (D): same driver and comparison as C09, with a larger share of mutated and random token sequences.
Oracle (implementation only): internal exceptions / silent acceptance of unbalanced text or of `=` without a
value from declast.check_decl; every declaration harvested from docs/*.rst and regression/input/*.yaml must be
accepted; VerifyAttrs and the YAML shape checks (generate.py / ast.py) must end in a diagnostic or success
(tools/props/c17_attrs.py; not modelled in Lean).
"""
from tools import common
from tools import extract_attrs
from tools import extract_decl
from tools.props import c09
from tools.props import decl_common as dc

LEVEL = "proof"
MANIFEST = dict(
    category="proof",
    text="Lean 4 theorems over models of the three validation layers. (a) declast: a character-level model of tokenize "
         "(ordered alternation of token_specification) composed with a model of check_decl for a library namespace: "
         "tokenize_total / tokenize_concat (every string is consumed completely, never 'Unexpected character'), "
         "checkDecl_no_crash and parse_no_crash (no internal Python exception for any string / token list, any environment, any "
         "budget), expression_fuel_suffices (ExprParser's budget suffices for all token lists), parse_consumes_all_partial and "
         "initializer_needs_value (nothing but an optional ';' is left; '=' needs a value), documented_forms_accepted. (b) "
         "generate.VerifyAttrs: verifyAttrs_no_crash for all attribute maps (absent/bare/text/int/real/list/false) and "
         "declaration shapes, illegal_* (each documented illegal combination is a reject whose id names the attribute), "
         "default_* (documented intent/value/deref/rank defaults); functions with a fortran_generic list (checkFcnG: every entry's "
         "arguments through check_arg_attrs, then check_implied_attrs against the entry's own names): verifyAttrsGeneric_no_crash, "
         "generic_every_entry_checked / generic_entry_every_arg_checked (a successful run validated every entry at every position and "
         "every argument of it), accepted_has_no_illegal_name (no undocumented attribute name survives on an argument or, at any "
         "depth, on a parameter of a function-pointer argument), fcn_generic_entry_rejected (one bad entry anywhere in the list is a "
         "diagnostic). (c) ast.py YAML structure validation (shape layer of "
         "create_library_from_dictionary, clean_dictionary, add_declarations, LibraryNode language/format checks): "
         "yamlShape_no_crash for all value trees, shape_* (each shape error is a reject naming the field). All three models are "
         "tied to the code on every run through the compiled Lean driver (ops parse/parsestr/lex, vattrs, yshape): outcome "
         "class, diagnostic text or id, normalised attributes. Implementation-only oracles search for internal exceptions, "
         "silent acceptance (unbalanced text, '=' without value, text after the expression of dimension/implied, documented-illegal "
         "attribute combinations on boundary values), rejected documented attribute values (every spelling lower/UPPER/Capitalised/"
         "mixed of the case-insensitive intent value on every host, the documented deref/owner values, documented dimension/implied "
         "forms: must be accepted), "
         "per-position rules (an undocumented attribute name on a top-level argument, on function-pointer parameters at depth 1 "
         "and 2, on an argument of the k-th of n fortran_generic entries, n = 1..3, on a function-pointer parameter inside an entry: "
         "must be rejected; ten documented per-argument rules placed in the k-th of n entries: must be rejected; all-good lists, the "
         "documented GenericReal example and explicit intent(in) in every letter case on by-value arguments: must be accepted) "
         "and rejected documented declarations (docs/*.rst, regression/input/*.yaml), run the command line on non-mapping YAML "
         "documents and the whole pipeline (parse, verify, generate, write wrappers) on a family of declaration shapes "
         "(unnamed / abstract arguments, function pointers, arrays, defaults).",
    design="3 C17",
    note="Trusted: Lean kernel; the hand-written models (Model/Lexer.lean, Decl.lean, Attrs.lean, YamlShape.lean) validated on "
         "generated inputs only; the allowed-attribute lists, token patterns (tokenSpec_is_modelled) and typemap tables are "
         "regenerated from the tree (Gen/AttrTables.lean, Gen/DeclTables.lean). Modelled, not verified against the engine: "
         "Python's re semantics for these patterns (\\d on ASCII digits only), int()/float() conversions (supplied by the harness), "
         "Python's recursion limit (deeply nested parentheses). _partial / not modelled: fuel sufficiency of the declaration "
         "parser for arbitrary token lists (proved for the expression parser and for canonical lists; the driver reports `fuel` "
         "distinctly and it is never observed); 'the unconsumed rest is a suffix of the input' is by construction, not a "
         "theorem; class scope and class/enum/struct/template/namespace statements are `unmodelled` in Lean and only fuzzed; "
         "the YAML model covers the shape layer only (what add_declaration does with a well-shaped entry, typemap creation and "
         "node-specific diagnostics are outside it and skipped by the tie); PyYAML's own errors. Open findings: five "
         "documentation snippets in obsolete syntax are rejected (doc-rejected:*; repairing them is a documentation rewrite).",
    technique="Lean 4 proof (invariants over all parser / validator functions by induction on the recursion budget or on the value "
              "tree) + differential correspondence on three driver ops + grammar-based and boundary-value fuzzing of the "
              "implementation",
)
MODULES = ["ShroudVerif.Props.C17"]
THEOREMS = {
    "ShroudVerif.Props.C17": [
        "Shroud.Decl.parse_no_crash",
        "Shroud.Decl.declaration_no_crash",
        "Shroud.Decl.expression_no_crash",
        "Shroud.Decl.parse_consumes_all_partial",
        "Shroud.Decl.initializer_needs_value",
        "Shroud.Decl.documented_forms_accepted",
        "Shroud.Lexer.tokenSpec_is_modelled",
        "Shroud.Lexer.tokenize_total",
        "Shroud.Lexer.tokenize_concat",
        "Shroud.Lexer.lexOne_progress",
        "Shroud.Lexer.checkDecl_no_crash",
        "Shroud.Yaml.yamlShape_no_crash",
        "Shroud.Yaml.shapeEntry_no_crash",
        "Shroud.Yaml.shape_field_must_be_dictionary",
        "Shroud.Yaml.shape_field_must_be_string",
        "Shroud.Yaml.shape_declarations_must_be_list",
        "Shroud.Yaml.shape_entry_must_be_dictionary",
        "Shroud.Yaml.shape_entry_needs_decl_or_block",
        "Shroud.Yaml.shape_language",
        "Shroud.Yaml.shape_copyright",
        "Shroud.Attrs.verifyAttrs_no_crash",
        "Shroud.Attrs.expression_fuel_suffices",
        "Shroud.Attrs.illegal_name_rejected",
        "Shroud.Attrs.illegal_intent_on_nonpointer",
        "Shroud.Attrs.illegal_intent_value",
        "Shroud.Attrs.illegal_dimension_combinations",
        "Shroud.Attrs.illegal_rank",
        "Shroud.Attrs.illegal_deref",
        "Shroud.Attrs.illegal_assumedtype_with_value",
        "Shroud.Attrs.illegal_charlen",
        "Shroud.Attrs.illegal_owner",
        "Shroud.Attrs.default_intent",
        "Shroud.Attrs.default_intent_fptr_param",
        "Shroud.Attrs.default_value",
        "Shroud.Attrs.default_deref",
        "Shroud.Attrs.default_rank",
        "Shroud.Attrs.verifyAttrsGeneric_no_crash",
        "Shroud.Attrs.accepted_has_no_illegal_name",
        "Shroud.Attrs.generic_every_entry_checked",
        "Shroud.Attrs.generic_entry_every_arg_checked",
        "Shroud.Attrs.generic_illegal_name_rejected",
        "Shroud.Attrs.generic_bad_implied_rejected",
        "Shroud.Attrs.fcn_generic_entry_rejected",
    ]
}


def _load_baseline():
    import os
    path = os.path.join(common.CORPUS, "c17_documented_accepted.txt")
    try:
        return set(l.rstrip("\n") for l in open(path) if l.strip())
    except OSError:
        return set()


# documented declarations (docs/*.rst, regression/input/*.yaml) that check_decl alone accepts on the unchanged tree
DOC_BASELINE = _load_baseline()


def balanced(text):
    """parentheses and brackets of the source are balanced and never close below zero"""
    toks0 = dc.safe_tokenize(text)
    if toks0 is None:
        return True       # cannot be judged with this tokenizer; the tie and the documented-declaration stream report it
    for o, c in (("LPAREN", "RPAREN"), ("LBRACKET", "RBRACKET")):
        depth = 0
        toks = toks0
        for i, t in enumerate(toks):
            if o == "LBRACKET" and _in_attr(toks, i):
                continue      # attribute text is free-form
            if t.typ == o:
                depth += 1
            elif t.typ == c:
                depth -= 1
                if depth < 0:
                    return False
        if depth:
            return False
    return True


def dangling_equals(text):
    toks = dc.safe_tokenize(text)
    if toks is None:
        return False
    depth = 0
    for i, t in enumerate(toks):
        # inside +attr( ... ) anything goes; only look at '=' outside attribute parentheses
        if t.typ == "EQUALS":
            nxt = toks[i + 1].typ if i + 1 < len(toks) else "EOF"
            if nxt not in ("REAL", "INTEGER", "DQUOTE", "SQUOTE", "ID", "TYPE_SPECIFIER", "TYPE_QUALIFIER",
                           "STORAGE_CLASS") and not _in_attr(toks, i):
                return True
    del depth
    return False


def _in_attr(toks, i):
    """is position i inside the parentheses of a +name( ... ) attribute"""
    j = 0
    while j < len(toks):
        if toks[j].typ == "PLUS" and j + 2 < len(toks) and toks[j + 1].typ == "ID" and toks[j + 2].typ == "LPAREN":
            depth, k = 1, j + 3
            while k < len(toks) and depth:
                if toks[k].typ == "LPAREN":
                    depth += 1
                elif toks[k].typ == "RPAREN":
                    depth -= 1
                k += 1
            if j + 2 < i < k:
                return True
            j = k
        else:
            j += 1
    return False


def crash_key(line, text):
    """key of an internal exception: exception class + the innermost shroud frame is not available here (the
    adapter catches it), so use the class and the first token class"""
    return "parse-crash:" + line.split(" ", 1)[1]


def run(ctx):
    thorough = ctx.tier == "thorough"
    if dc.guarded(ctx, "translator:extract_decl", extract_decl.write) is None:
        ctx.tie_broken("translator", "Gen/DeclTables.lean could not be regenerated from the tree under test")
    if dc.guarded(ctx, "translator:extract_attrs", extract_attrs.write) is None:
        ctx.tie_broken("translator", "Gen/AttrTables.lean could not be regenerated from the tree under test")
    ok = ctx.lean(MODULES, THEOREMS, extra_targets=("drv_decl",))
    r = common.rng("c17")
    ctx.cov["trusted_base"] = [
        "Lean 4.33.0 kernel; axioms within {propext, Classical.choice, Quot.sound}",
        "hand-written models Model/Lexer.lean, Decl.lean, Token.lean, Attrs.lean, YamlShape.lean, tied by differential correspondence (drv_decl)",
        "Gen/DeclTables.lean (token patterns, typemaps, symbols) and Gen/AttrTables.lean (allowed attribute lists) regenerated from the working tree",
        "Python re semantics for the token patterns (\\d on ASCII digits), int()/float() conversions supplied by the harness, "
        "Python recursion limit not modelled",
        "message-text -> diagnostic-id tables of the harness (c17_vattrs.MSG_IDS, c17_yshape.SHAPE_IDS)",
    ]
    ctx.cov["rule"] = ("corpus + grammar-directed declarations + single-token mutations + random token sequences over the declaration "
                       "alphabet; character-level strings (valid with random spacing, single-character mutations, random, number-"
                       "shaped, a few non-ASCII); all attribute names x value shapes on functions/arguments/variables + boundary "
                       "values of rank x conflicting attributes; must-accept family (case variants of intent, documented deref/owner/dimension/"
                       "implied forms) and must-reject family (trailing text in dimension/implied, intent out on values); malformed YAML shapes; non-mapping YAML documents; "
                       "position family (rule x position: top-level / fptr parameter depth 1-2 / entry k of n of fortran_generic); "
                       "non-trivial = distinct accepted structures, distinct diagnostics, distinct (attribute, shape, outcome) triples")
    ctx.assumptions += [
        "theorems are about the Lean model; the model is validated against declast.py on generated inputs only",
        "the YAML model is the shape layer only; declaration-specific processing of a well-shaped entry is outside it",
        "fuel sufficiency of the declaration parser for arbitrary token lists is checked by the tie, not proved",
    ]
    depth = 4 if thorough else 3
    n = 200000 if thorough else 24000
    st = {"cases": [], "kinds": [], "impl": [], "asts": []}

    def phase_tie():
        cases = c09.corpus_cases("c17.txt")
        kinds = ["corpus"] * len(cases)
        c2, k2, gstats = c09.streams(r, n, depth, shares=(2, 4, 3))
        cases += c2
        kinds += k2
        st["cases"], st["kinds"] = cases, kinds
        impl, asts = c09.correspondence(ctx, cases, kinds, ok, want_tokens=False, outcome_only=True)
        st["impl"], st["asts"] = impl, asts
        ctx.note("generator_branches", dict(sorted(gstats.items(), key=lambda kv: -kv[1])[:30]))
        for s, a in list(zip(cases, impl))[:: max(1, len(cases) // 6)][:6]:
            ctx.sample({"decl": s, "impl": a[:160]})

    def ensure_impl():
        if st["cases"] and not st["impl"]:
            for s in st["cases"]:
                line, a = dc.real_parse(s)
                st["impl"].append(line)
                st["asts"].append(a)

    def phase_entry_point():
        # ---- oracle 1: entry point check_decl on all streams
        for s, line in zip(st["cases"], st["impl"]):
            ctx.count(1)
            if line.startswith("crash"):
                ctx.fail(crash_key(line, s), "check_decl(%r) raises %s (internal exception, not a diagnostic)" % (s, line[6:]),
                         {"kind": "decl", "decl": s})
            elif line.startswith("ok ") or line.startswith("unmodelled"):
                if not balanced(s):
                    ctx.fail("silent:unbalanced", "check_decl(%r) accepts unbalanced text" % s, {"kind": "decl", "decl": s})
                elif dangling_equals(s):
                    ctx.fail("silent:empty-initializer", "check_decl(%r) accepts '=' with no value" % s, {"kind": "decl", "decl": s})

    def phase_documented():
        # ---- oracle 2: documented declarations are accepted
        from tools.props import decl_harvest
        failures = decl_harvest.accept_all(common.REPO)
        ctx.note("documented_decl_failures", len(failures))
        try:
            ctx.note("documented_decls", len(decl_harvest.harvest(common.REPO)))
        except Exception:  # noqa
            pass
        for src, decl, exc in failures:
            ctx.count(1)
            key = "doc-rejected:%s:%s" % (str(src).split("/")[-1].split(":")[0], decl.strip()[:40])
            ctx.fail(key, "documented declaration rejected: %r (%s) is not accepted: %s" % (
                decl, src, str(exc).split("\n")[-1][:160]), {"kind": "doc", "source": str(src), "decl": decl})

    def phase_documented_direct():
        # the documented declarations once more, one by one through check_decl only (no library context): a declaration
        # accepted on the unchanged tree this way must stay accepted whatever else in the harvest machinery fails
        from tools.props import decl_harvest
        n_ok = 0
        for item in decl_harvest.harvest(common.REPO):
            src, decl = item[0], item[1]
            if not isinstance(decl, str) or decl not in DOC_BASELINE:
                continue
            line, _ = dc.real_parse(decl)
            ctx.count(1)
            if line.startswith("ok ") or line.startswith("unmodelled"):
                n_ok += 1
            else:
                key = "doc-rejected:%s:%s" % (str(src).split("/")[-1].split(":")[0], decl.strip()[:40])
                ctx.fail(key, "documented declaration rejected: %r (%s): %s" % (
                    decl, src, common.dec(line.split(" ", 1)[1]) if line.startswith("reject ") else line),
                    {"kind": "doc", "source": str(src), "decl": decl})
        ctx.note("documented_decls_direct_ok", n_ok)

    def phase_lexer():
        # ---- tie of the character-level tokenizer model (driver ops `lex`, `parsestr`) to declast.tokenize / check_decl
        drv = common.Driver("drv_decl")
        items = dc.char_streams(common.rng("c17-chars"), 60000 if thorough else 12000)
        lstat = {"strings": len(items), "by_stream": {}, "lex_disagreements": 0, "parsestr_disagreements": 0,
                 "non_ascii": sum(1 for _, s in items if any(ord(c) > 127 for c in s)), "parsestr_outcomes": {}}
        for k, _ in items:
            lstat["by_stream"][k] = lstat["by_stream"].get(k, 0) + 1
        real_l = [dc.real_lex(s) for _, s in items]
        real_p = [dc.real_parse(s)[0] for _, s in items]
        ctx.count(2 * len(items))
        for s, line in zip(items, real_p):
            if line.startswith("crash"):
                ctx.fail(crash_key(line, s[1]), "check_decl(%r) raises %s (internal exception, not a diagnostic)" % (s[1], line[6:]),
                         {"kind": "decl", "decl": s[1]})
        for s, line in zip(items, real_l):
            if line.startswith("crash"):
                ctx.fail("tokenize-crash:" + line[6:], "tokenize(%r) raises %s" % (s[1], line[6:]), {"kind": "decl", "decl": s[1]})
        if not (drv.available() and ok):
            ctx.tie_broken("lexer-correspondence", "driver not built")
            return
        ml = drv.run(["lex " + common.enc(s) for _, s in items])
        mp = drv.run(["parsestr " + common.enc(s) for _, s in items])
        ldis, pdis = [], []
        for (k, s), a, b in zip(items, real_l, ml):
            if a != b:
                ldis.append({"string": s, "stream": k, "impl": a[:200], "model": b[:200]})
            else:
                ctx.nontrivial("lex:" + a[:60])
        for (k, s), a, b in zip(items, real_p, mp):
            cls = dc.outcome_class(a)
            lstat["parsestr_outcomes"][cls] = lstat["parsestr_outcomes"].get(cls, 0) + 1
            if b.startswith("unmodelled"):
                continue
            if "=" in s and a.startswith("ok ") and b.startswith("ok "):
                continue      # default values are printed by Python's str(int/float), which the string-level model has no access to
            if "\n" in s and a.startswith("reject") and b.startswith("reject"):
                continue      # the harness compares the last line of the diagnostic; a quoted newline splits it
            if a != b:
                pdis.append({"string": s, "stream": k, "impl": a[:200], "model": b[:200]})
        lstat["lex_disagreements"], lstat["parsestr_disagreements"] = len(ldis), len(pdis)
        ctx.note("lexer_tie", lstat)
        if ldis:
            ctx.tie_broken("lexer-correspondence", ldis[:5])
        if pdis:
            ctx.tie_broken("check_decl-on-strings-correspondence", pdis[:5])

    def phase_vattrs():
        # ---- tie of the Lean model of VerifyAttrs (driver op `vattrs`) on the attribute stream + boundary family
        from tools.props import c17_vattrs
        c17_vattrs.run_vattrs(ctx, thorough, ok)

    def phase_attrs():
        # ---- oracle 3: VerifyAttrs and YAML shapes (implementation only)
        from tools.props import c17_attrs
        c17_attrs.run_attrs(ctx, thorough)

    def phase_yaml():
        from tools.props import c17_attrs
        c17_attrs.run_yaml(ctx, thorough)

    def phase_yshape():
        # ---- tie of the Lean model of the YAML structure validation (driver op `yshape`) on the YAML stream
        from tools.props import c17_yshape
        c17_yshape.run_yshape(ctx, thorough, ok)

    def phase_pipeline():
        # ---- the whole command line (parse, verify, generate, write C/Fortran wrappers) on declaration SHAPES: unnamed and
        #      abstract arguments, function pointers with abstract parameter lists, arrays, references, defaults.  An internal
        #      exception anywhere downstream of the validation is a failing input.
        import contextlib
        import io
        import os
        import sys
        from shroud import main as smain
        shapes = ["void f(int, double)", "void f(int)", "int f(int *, double &)", "void f(const char *)", "void f(void *)",
                  "void f(int x, double)", "void f(int (*)(int))", "void f(int (*cb)(int, double))", "void f(int (*cb)(void))",
                  "void f(int x[3])", "void f(int [3])", "void f(int **)", "void f(int n = 1, double)", "int *f(int)",
                  "void f(int x, int y = 2)", "void f(int &)", "const char *f(void)", "void f(int x +intent(in))",
                  "void f(int *x +intent(out)+dimension(3))", "double f(double)", "void f(int x, ...)", "void f(std::string)",
                  "void f(std::vector<int> &)", "void f(bool, bool)", "void f(size_t)", "void f(int a, int a)"]
        sp = c09.special_shapes()
        shapes += [" ".join(t.split()) for t in sp[:: (7 if not thorough else 2)]]
        tmp = common.scratch()
        stat = {"shapes": len(shapes), "ok": 0, "diagnostic": 0, "internal": 0}
        try:
            for i, decl in enumerate(shapes):
                for lang in ("c", "c++"):
                    if lang == "c" and ("std" in decl or "&" in decl):
                        continue
                    path = os.path.join(tmp, "p%d.yaml" % i)
                    import yaml
                    with open(path, "w") as f:
                        yaml.safe_dump({"library": "p%d" % i, "language": lang, "declarations": [{"decl": decl}]}, f)
                    out = os.path.join(tmp, "o%d%s" % (i, lang[:1] + str(len(lang))))
                    os.makedirs(out, exist_ok=True)
                    argv = sys.argv
                    sys.argv = ["shroud", "--outdir", out, "--logdir", out, path]
                    try:
                        with contextlib.redirect_stdout(io.StringIO()), contextlib.redirect_stderr(io.StringIO()):
                            smain.main()
                        stat["ok"] += 1
                    except SystemExit as e:
                        stat["ok" if e.code in (0, None) else "diagnostic"] += 1
                    except (RuntimeError, DeprecationWarning):
                        stat["diagnostic"] += 1
                    except Exception as e:  # noqa
                        import traceback
                        tb = [f for f in traceback.extract_tb(e.__traceback__) if os.sep + "shroud" + os.sep in f.filename]
                        site = "%s:%s" % (os.path.basename(tb[-1].filename), tb[-1].name) if tb else "?"
                        stat["internal"] += 1
                        ctx.fail("pipeline:%s:%s" % (type(e).__name__, site),
                                 "shroud on `%s` [%s] raises %s at %s: %s" % (decl, lang, type(e).__name__, site,
                                                                              " ".join(str(e).split())[:100]),
                                 {"kind": "pipeline", "decl": decl, "language": lang})
                    finally:
                        sys.argv = argv
                    ctx.count(1)
        finally:
            common.rmtree(tmp)
        ctx.note("pipeline_shapes", stat)

    def phase_main_documents():
        # ---- the command line on YAML documents that are not a mapping / are empty / are not YAML
        import contextlib
        import io
        import os
        import sys
        from shroud import main as smain
        docs = {"list": "- a\n- b\n", "scalar": "3\n", "string": "hello\n", "empty": "", "null": "~\n", "nested-list": "- [1, 2]\n",
                "mapping": "library: t\ndeclarations:\n- decl: void f()\n", "bad-yaml": "a: [1, 2\n", "two-docs": "a: 1\n---\nb: 2\n",
                "declarations-scalar": "library: t\ndeclarations: 3\n"}
        tmp = common.scratch()
        res = {}
        try:
            for name, text in docs.items():
                path = os.path.join(tmp, name + ".yaml")
                with open(path, "w") as f:
                    f.write(text)
                argv = sys.argv
                sys.argv = ["shroud", "--outdir", tmp, "--logdir", tmp, path]
                try:
                    with contextlib.redirect_stdout(io.StringIO()), contextlib.redirect_stderr(io.StringIO()):
                        smain.main()
                    res[name] = "ok"
                except (RuntimeError, SystemExit) as e:
                    res[name] = "diagnostic:" + type(e).__name__
                except Exception as e:  # noqa
                    mod = type(e).__module__ or ""
                    if mod.startswith("yaml"):
                        res[name] = "diagnostic:yaml." + type(e).__name__     # PyYAML's own error, not modelled
                    else:
                        res[name] = "internal:" + type(e).__name__
                        ctx.fail("main-document:%s:%s" % (name, type(e).__name__),
                                 "shroud on a YAML file containing %r raises %s: %s" % (text, type(e).__name__, " ".join(str(e).split())[:100]),
                                 {"kind": "main-document", "text": text})
                finally:
                    sys.argv = argv
                ctx.count(1)
        finally:
            common.rmtree(tmp)
        ctx.note("main_documents", res)

    dc.guarded(ctx, "tie", phase_tie)
    dc.guarded(ctx, "implementation-run", ensure_impl)
    dc.guarded(ctx, "oracle-entry-point", phase_entry_point)
    dc.guarded(ctx, "oracle-documented", phase_documented)
    dc.guarded(ctx, "oracle-documented-direct", phase_documented_direct)
    dc.guarded(ctx, "lexer-tie", phase_lexer)
    dc.guarded(ctx, "verifyAttrs-tie", phase_vattrs)
    dc.guarded(ctx, "oracle-attrs", phase_attrs)
    dc.guarded(ctx, "oracle-yaml", phase_yaml)
    dc.guarded(ctx, "yamlShape-tie", phase_yshape)
    dc.guarded(ctx, "oracle-main-documents", phase_main_documents)
    dc.guarded(ctx, "oracle-pipeline-shapes", phase_pipeline)


def replay(path):
    import json
    d = json.load(open(path))
    for f in d.get("failing", []):
        rp = f["replay"]
        if rp.get("kind") in ("decl", "doc"):
            print(f["key"], "->", rp["decl"], "=>", dc.real_parse(rp["decl"])[0][:200])
        else:
            from tools.props import c17_attrs
            print(f["key"], "->", c17_attrs.replay_case(rp))
    return 0
