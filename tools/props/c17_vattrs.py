"""Tie (D) of the Lean model of generate.VerifyAttrs (Model/Attrs.lean, driver op `vattrs`) to the real code:
for every function / class variable of every library of the C17 attribute stream, the abstract declaration and
its attribute map are sent to the driver and the real check_fcn_attrs / check_var_attrs is run on the node;
outcome class, diagnostic id and the normalised intent / value / deref / rank of every declaration are compared."""
import contextlib
import copy
import re

from tools import common
from tools.props import decl_common as dc

MSG_IDS = [
    (r"Illegal attribute '([^']*)' for argument", r"arg:illegal-attribute:\1"),
    (r"Illegal attribute '([^']*)' for function", r"fcn:illegal-attribute:\1"),
    (r"Illegal attribute '([^']*)' for variable", r"var:illegal-attribute:\1"),
    (r"Missing arg\.typemap", "arg:missing-typemap"),
    (r"intent attribute of argument .* must have a value", "intent:must-have-a-value"),
    (r"Bad value for intent", "intent:bad-value"),
    (r"Only pointer arguments may have intent", "intent:only-pointer-arguments"),
    (r"Illegal value .* for deref attribute", "deref:illegal-value"),
    (r"Cannot have attribute 'deref' on non-pointer", "deref:on-non-pointer"),
    (r"'rank' attribute must have an integer value$", "rank:must-have-integer-value"),
    (r"'rank' attribute must have an integer value, not", "rank:not-an-integer"),
    (r"'rank' attribute must be 0-7", "rank:must-be-0-7"),
    (r"rank attribute can only be", "rank:only-pointer"),
    (r"dimension attribute must have a value\.", "dimension:must-have-a-value"),
    (r"may not have 'value' and 'dimension'", "dimension:with-value"),
    (r"may not have 'rank' and 'dimension'", "dimension:with-rank"),
    (r"dimension attribute can only be", "dimension:only-pointer"),
    (r"dimension attribute of .* must have a value in parens", "dimension:must-be-text"),
    (r"Unable to parse dimension", "dimension:unable-to-parse"),
    (r"Illegal value .* for owner attribute", "owner:illegal-value"),
    (r"Illegal value .* for free_pattern attribute", "free_pattern:not-in-patterns"),
    (r"must not have value=True", "assumedtype:with-value"),
    (r"charlen attribute can only be", "charlen:only-char-pointer"),
    (r"charlen attribute must have a value", "charlen:must-have-a-value"),
    (r"std::vector must have template argument", "template:vector-needs-argument"),
    (r"No such type .* for template", "template:no-such-type"),
    (r"may not supply template argument", "template:may-not-supply-argument"),
    (r"implied attribute of argument .* must have an expression", "implied:must-be-text"),
    (r"Too many arguments to", "implied:too-many-arguments"),
    (r"in implied attribute must be the name of an argument", "implied:argument-must-be-a-name"),
    (r"Unknown argument", "implied:unknown-argument"),
    (r"^Parse Error", "implied:parse-error"),
]


def msg_id(text):
    flat = " ".join(text.split())
    for rx, rep in MSG_IDS:
        m = re.search(rx, flat)
        if m:
            return m.expand(rep) if "\\" in rep else rep
    return "unmapped:" + flat[:60]


def enc_val(v):
    """-> list of protocol items, or None if the value is outside the modelled shapes"""
    if v is True:
        return ["b"]
    if v is False:
        return ["f"]
    if isinstance(v, int):
        return ["i:%d" % v]
    if isinstance(v, float):
        if v != v or v in (float("inf"), float("-inf")):
            return None
        return ["r:%d:%d" % (int(v), 1 if v else 0)]
    if isinstance(v, str):
        if any(ord(c) > 126 or ord(c) < 32 for c in v):
            return None
        try:
            i = str(int(v))
        except ValueError:
            i = "~"
        raw = dc.raw_tokens(v)
        toks = dc.enc_tokens(raw).split(" ") if raw else []
        return ["t:%s:%s:%d" % (common.enc(v), i, len(toks))] + toks
    if isinstance(v, (list, dict, tuple)):
        return ["l:%d" % (1 if v else 0)]
    return None


def enc_decl(a, as_function):
    """declast.Declaration -> protocol items (None: outside the modelled shapes)"""
    ptrs = "".join(p.ptr for p in a.declarator.pointer) if a.declarator is not None else ""
    tm = a.typemap
    name = a.name
    attrs = [(k, v) for k, v in a.attrs.items() if v is not None]
    items = ["D", ptrs or "-", "1" if a.array else "0", "1" if a.const else "0", "1" if tm is not None else "0",
             common.enc(tm.name if tm is not None else ""), common.enc((tm.base or "") if tm is not None else ""),
             common.enc((tm.sgroup or "") if tm is not None else ""),
             "1" if a.is_function_pointer() else "0", "1" if a.init is not None else "0",
             str(len(a.template_arguments)),
             "1" if (a.template_arguments and a.template_arguments[0].typemap is not None) else "0",
             common.enc(name) if isinstance(name, str) and name else "~", str(len(attrs))]
    recurse = as_function or a.is_function_pointer()
    params = (a.params or []) if recurse else None
    items.append(str(len(params)) if params is not None else "-1")
    for k, v in attrs:
        ev = enc_val(v)
        if ev is None or not isinstance(k, str) or not k:
            return None
        items.append(common.enc(k))
        items += ev
    for p in params or []:
        sub = enc_decl(p, False)
        if sub is None:
            return None
        items += sub
    return items


def norm_decl(a):
    rank = a.attrs["rank"] if "rank" in a.attrs else None
    out = ["%s,%s,%s,%s" % (
        a.metaattrs["intent"] if a.metaattrs["intent"] is not None else "~",
        "1" if a.attrs["value"] else "0",
        a.metaattrs["deref"] if a.metaattrs["deref"] is not None else "~",
        str(rank) if isinstance(rank, int) and not isinstance(rank, bool) else "~")]
    return out


def norm_arg(a):
    out = norm_decl(a)
    if a.is_function_pointer():
        for p in a.params or []:
            out += norm_arg(p)
    return out


def nodes_of(lib):
    """(kind, node, cls) in the order verify_namespace_attrs visits them"""
    out = []

    def ns_walk(node):
        for cls in node.classes:
            for var in cls.variables:
                out.append(("var", var, cls))
            for fn in cls.functions:
                out.append(("fcn", fn, cls))
        for fn in node.functions:
            out.append(("fcn", fn, None))
        for ns in node.namespaces:
            ns_walk(ns)
    ns_walk(lib.wrap_namespace)
    return out


def run_vattrs(ctx, thorough, ok):
    from shroud import ast as sast, generate, typemap, main as smain
    from tools.props import c17_attrs
    drv = common.Driver("drv_decl")
    cases, known, _ = c17_attrs.attr_cases(thorough)
    reqs, impl, labels = [], [], []
    stat = {"libraries": 0, "library_rejected_before_verify": 0, "nodes": 0, "outside_model": 0, "fortran_generic_skipped": 0,
            "by_outcome": {}, "by_id": {}}
    with c17_attrs.fast_helpers():
        for lang, opts, decls, label, nt in cases:
            d = c17_attrs.library(lang, decls, opts)
            try:
                with contextlib.redirect_stdout(c17_attrs._NULL):
                    typemap.initialize()
                    lib = sast.create_library_from_dictionary(copy.deepcopy(d))
                    cfg = smain.Config()
                    cfg.log = c17_attrs._NULL
            except (RuntimeError, SystemExit, DeprecationWarning):
                stat["library_rejected_before_verify"] += 1
                continue
            except Exception:  # noqa  (an internal exception here is C17's own oracle's business)
                continue
            stat["libraries"] += 1
            v = generate.VerifyAttrs(lib, cfg)
            for kind, node, cls in nodes_of(lib):
                if kind == "fcn" and getattr(node, "fortran_generic", None):
                    stat["fortran_generic_skipped"] += 1
                    continue
                items = enc_decl(node.ast, kind == "fcn")
                if items is None:
                    stat["outside_model"] += 1
                    continue
                req = "vattrs %s %s %s" % (kind, common.encs(list(lib.patterns) if isinstance(lib.patterns, (list, dict)) else []),
                                           " ".join(items))
                try:
                    with contextlib.redirect_stdout(c17_attrs._NULL):
                        if kind == "fcn":
                            v.check_fcn_attrs(node)
                            a = node.ast
                            res = "ok " + ";".join(norm_decl(a) + [x for p in a.params for x in norm_arg(p)])
                        else:
                            v.check_var_attrs(cls, node)
                            res = "ok"
                except RuntimeError as e:
                    res = "reject " + msg_id(str(e))
                except Exception as e:  # noqa
                    res = "crash " + type(e).__name__
                reqs.append(req)
                impl.append(res)
                labels.append("[%s] %s :: %s" % (lang, label, node.ast.gen_decl() if hasattr(node.ast, "gen_decl") else ""))
                stat["nodes"] += 1
                cls_ = res.split(" ")[0]
                stat["by_outcome"][cls_] = stat["by_outcome"].get(cls_, 0) + 1
                if cls_ == "reject":
                    i = res.split(" ", 1)[1].split(":")
                    key = ":".join(i[:2])
                    stat["by_id"][key] = stat["by_id"].get(key, 0) + 1
    ctx.count(len(reqs))
    if not (drv.available() and ok):
        ctx.tie_broken("verifyAttrs-correspondence", "driver not built")
        return
    model = drv.run(reqs)
    dis = []
    for q, a, b, lab in zip(reqs, impl, model, labels):
        if a != b:
            dis.append({"case": lab, "impl": a[:300], "model": b[:300]})
        else:
            ctx.nontrivial("vattrs:" + a[:80])
    stat["disagreements"] = len(dis)
    ctx.note("verifyAttrs_tie", stat)
    if dis:
        ctx.tie_broken("verifyAttrs-correspondence", dis[:6])
