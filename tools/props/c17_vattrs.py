"""Tie (D) of the Lean model of generate.VerifyAttrs (Model/Attrs.lean, driver op `vattrs`) to the real code:
for every function / class variable of every library of the C17 attribute stream, the abstract declaration and
its attribute map are sent to the driver and the real check_fcn_attrs / check_var_attrs is run on the node;
outcome class, diagnostic id and the normalised intent / value / deref / rank of every declaration are compared."""
import contextlib
import copy
import json
import re

from tools import common
from tools.props import decl_common as dc

MSG_IDS = [
    (r"Illegal attribute '([^']*)' for argument", r"arg:illegal-attribute:\1"),
    (r"Illegal attribute '([^']*)' for function", r"fcn:illegal-attribute:\1"),
    (r"Illegal attribute '([^']*)' for variable", r"var:illegal-attribute:\1"),
    (r"Argument \d+ of function .* must have a name", "arg:must-have-a-name"),
    (r"Missing arg\.typemap", "arg:missing-typemap"),
    (r"intent attribute of argument .* must have a value", "intent:must-have-a-value"),
    (r"Bad value for intent", "intent:bad-value"),
    (r"Only pointer arguments may have intent", "intent:only-pointer-arguments"),
    (r"Illegal value .* for deref attribute", "deref:illegal-value"),
    (r"Cannot have attribute 'deref' on non-pointer", "deref:on-non-pointer"),
    (r"'rank' attribute must have an integer value$", "rank:must-have-integer-value"),
    (r"'rank' attribute must have an integer value, not", "rank:not-an-integer"),
    (r"'rank' attribute must be 0-7", "rank:must-be-0-7"),
    (r"rank attribute can only be", "rank:only-pointer"),
    (r"dimension attribute must have a value\.", "dimension:must-have-a-value"),
    (r"may not have 'value' and 'dimension'", "dimension:with-value"),
    (r"may not have 'rank' and 'dimension'", "dimension:with-rank"),
    (r"dimension attribute can only be", "dimension:only-pointer"),
    (r"dimension attribute of .* must have a value in parens", "dimension:must-be-text"),
    (r"Unable to parse dimension", "dimension:unable-to-parse"),
    (r"Illegal value .* for owner attribute", "owner:illegal-value"),
    (r"Illegal value .* for free_pattern attribute", "free_pattern:not-in-patterns"),
    (r"must not have value=True", "assumedtype:with-value"),
    (r"charlen attribute can only be", "charlen:only-char-pointer"),
    (r"charlen attribute must have a value", "charlen:must-have-a-value"),
    (r"std::vector must have template argument", "template:vector-needs-argument"),
    (r"No such type .* for template", "template:no-such-type"),
    (r"may not supply template argument", "template:may-not-supply-argument"),
    (r"implied attribute of argument .* must have an expression", "implied:must-be-text"),
    (r"Too many arguments to", "implied:too-many-arguments"),
    (r"in implied attribute must be the name of an argument", "implied:argument-must-be-a-name"),
    (r"Unknown argument", "implied:unknown-argument"),
    (r"^Parse Error", "implied:parse-error"),
]


def msg_id(text):
    flat = " ".join(text.split())
    for rx, rep in MSG_IDS:
        m = re.search(rx, flat)
        if m:
            return m.expand(rep) if "\\" in rep else rep
    return "unmapped:" + flat[:60]


def enc_val(v):
    """-> list of protocol items, or None if the value is outside the modelled shapes"""
    if v is True:
        return ["b"]
    if v is False:
        return ["f"]
    if isinstance(v, int):
        return ["i:%d" % v]
    if isinstance(v, float):
        if v != v or v in (float("inf"), float("-inf")):
            return None
        return ["r:%d:%d" % (int(v), 1 if v else 0)]
    if isinstance(v, str):
        if any(ord(c) > 126 or ord(c) < 32 for c in v):
            return None
        try:
            i = str(int(v))
        except ValueError:
            i = "~"
        raw = dc.raw_tokens(v)
        toks = dc.enc_tokens(raw).split(" ") if raw else []
        return ["t:%s:%s:%d" % (common.enc(v), i, len(toks))] + toks
    if isinstance(v, (list, dict, tuple)):
        return ["l:%d" % (1 if v else 0)]
    return None


def enc_decl(a, as_function):
    """declast.Declaration -> protocol items (None: outside the modelled shapes)"""
    ptrs = "".join(p.ptr for p in a.declarator.pointer) if a.declarator is not None else ""
    tm = a.typemap
    name = a.name
    attrs = [(k, v) for k, v in a.attrs.items() if v is not None]
    items = ["D", ptrs or "-", "1" if a.array else "0", "1" if a.const else "0", "1" if tm is not None else "0",
             common.enc(tm.name if tm is not None else ""), common.enc((tm.base or "") if tm is not None else ""),
             common.enc((tm.sgroup or "") if tm is not None else ""),
             "1" if a.is_function_pointer() else "0", "1" if a.init is not None else "0",
             str(len(a.template_arguments)),
             "1" if (a.template_arguments and a.template_arguments[0].typemap is not None) else "0",
             (common.enc(name) if isinstance(name, str) and name else "~") if (name is None or isinstance(name, str))
             else common.enc("<nonstr>"),      # `+name` / `+name=1`: Declaration.name is True / 1, not None
             str(len(attrs))]
    recurse = as_function or a.is_function_pointer()
    params = (a.params or []) if recurse else None
    items.append(str(len(params)) if params is not None else "-1")
    for k, v in attrs:
        ev = enc_val(v)
        if ev is None or not isinstance(k, str) or not k:
            return None
        items.append(common.enc(k))
        items += ev
    for p in params or []:
        sub = enc_decl(p, False)
        if sub is None:
            return None
        items += sub
    return items


def norm_decl(a):
    rank = a.attrs["rank"] if "rank" in a.attrs else None
    out = ["%s,%s,%s,%s" % (
        a.metaattrs["intent"] if a.metaattrs["intent"] is not None else "~",
        "1" if a.attrs["value"] else "0",
        a.metaattrs["deref"] if a.metaattrs["deref"] is not None else "~",
        str(rank) if isinstance(rank, int) and not isinstance(rank, bool) else "~")]
    return out


def norm_arg(a):
    out = norm_decl(a)
    if a.is_function_pointer():
        for p in a.params or []:
            out += norm_arg(p)
    return out


def nodes_of(lib):
    """(kind, node, cls) in the order verify_namespace_attrs visits them"""
    out = []

    def ns_walk(node):
        for cls in node.classes:
            for var in cls.variables:
                out.append(("var", var, cls))
            for fn in cls.functions:
                out.append(("fcn", fn, cls))
        for fn in node.functions:
            out.append(("fcn", fn, None))
        for ns in node.namespaces:
            ns_walk(ns)
    ns_walk(lib.wrap_namespace)
    return out


def boundary_cases():
    """Boundary values (0, 1, 7, 8, negative, non-numeric, bare, `=int`) of the integer-valued attribute `rank`
    combined, in both orders, with every attribute it conflicts with (`dimension`, and `value` for dimension), on a
    pointer argument, a non-pointer argument and a pointer result.  -> list of (decl, rule or None): `rule` names the
    documented rule by which the declaration must be rejected (independent of the code under test)."""
    ranks = ["(0)", "(1)", "(2)", "(7)", "(8)", "(-1)", "(x)", "(1.5)", "", "=0", "=1", "=7", "=8"]
    partners = ["", "+dimension(n)", "+dimension(3)", "+dimension(n,m)", "+value"]
    hosts = [("ptr-arg", "void f(int n, int m, int *a %s)", True), ("scalar-arg", "void f(int n, int m, int a %s)", False),
             ("ptr-result", "int *f(int n, int m) %s", True)]
    out = []

    def rule(rank, partner, is_ptr, hid):
        if rank in ("(x)", "(1.5)", ""):
            return "rank-must-be-an-integer"
        if rank in ("(8)", "=8"):
            return "rank-must-be-0-7"
        if not is_ptr and rank not in ("=0",):
            return "rank-only-on-pointer"
        if "dimension" in partner and not is_ptr:
            return "dimension-only-on-pointer"
        if "dimension" in partner and rank != "=0":
            # `+rank=0` stores the integer 0, which Python treats as "no rank"; every written rank(...) conflicts
            return "rank-and-dimension"
        return None

    for hid, tmpl, is_ptr in hosts:
        for rk in ranks:
            for pt in partners:
                if pt == "+value" and hid == "ptr-result":
                    continue
                for order in (0, 1):
                    a, b = "+rank" + rk, pt
                    attrs = (a + b) if order == 0 else (b + a)
                    if rk.startswith("=") and order == 0 and b:
                        continue      # `+rank=0+dimension` is not parseable: `=value` must come last
                    out.append((tmpl % attrs, rule(rk, pt, is_ptr, hid)))
    for pt in ("+dimension(n)+value", "+value+dimension(n)"):
        out.append(("void f(int n, int *a %s)" % pt, "value-and-dimension"))
    return out


CASE_VARIANTS = lambda w: sorted({w, w.upper(), w.capitalize(), w[0] + w[1:].upper(), w[:-1] + w[-1].upper()})  # noqa


def accept_cases():
    """Declarations which the documentation says are legal: every spelling (lower, UPPER, Capitalised, mixed) of the
    case-insensitive attribute value `intent` on every host on which that intent is allowed; the attribute values
    documented as case-sensitive (`deref`, `owner`) in their documented spelling.
    -> list of (decl, attrs or None, rule, "accept" | "reject")"""
    out = []
    for w in ("in", "out", "inout"):
        for v in CASE_VARIANTS(w):
            out.append(("void f(int *a +intent(%s))" % v, None, "intent-value-is-case-insensitive", "accept"))
            out.append(("void f(const double *a +intent(%s))" % v, None, "intent-value-is-case-insensitive", "accept"))
            out.append(("void f(int &a +intent(%s))" % v, None, "intent-value-is-case-insensitive", "accept"))
            out.append(("void f(int *a)", {"a": {"intent": v}}, "intent-value-is-case-insensitive", "accept"))
            if w == "in":
                out.append(("void f(int a +intent(%s))" % v, None, "intent-value-is-case-insensitive", "accept"))
            else:
                out.append(("void f(int a +intent(%s))" % v, None, "intent-out-only-on-pointer", "reject"))
    for v in ("i", "input", "in out", "in,out", "inn", "", "0"):
        out.append(("void f(int *a)", {"a": {"intent": v}}, "intent-must-be-in-out-inout", "reject"))
    for v in ("allocatable", "pointer", "raw", "scalar"):
        out.append(("int *f() +deref(%s)" % v, None, "deref-documented-value", "accept"))
        out.append(("void f(int **a +intent(out)+deref(%s))" % v, None, "deref-documented-value", "accept"))
    for v in ("caller", "library"):
        out.append(("int *f() +owner(%s)" % v, None, "owner-documented-value", "accept"))
    # text after the expression of an attribute is not part of any documented form
    for v in ("n m", "n) m", "n, m 3", "size(a) 3", "n 1"):
        out.append(("void f(int n, int m, int *a)", {"a": {"dimension": v}}, "dimension-is-a-list-of-expressions", "reject"))
    for v in ("size(a) 3", "size(a) b", "n n", "size(a)) 1"):
        out.append(("void f(int n, int *a, int b)", {"b": {"implied": v}}, "implied-is-one-expression", "reject"))
    for v in ("n", "n,m", "size(b)", "n+1", "2*n"):
        out.append(("void f(int n, int m, int *b, int *a)", {"a": {"dimension": v}}, "dimension-documented-form", "accept"))
    for v in ("size(a)", "len(s)", "len_trim(s)", "n+1"):
        out.append(("void f(int n, int *a, char *s, int b)", {"b": {"implied": v}}, "implied-documented-form", "accept"))
    return out


GOOD_ENTRIES = ["(float *arg +rank(1), int n +implied(size(arg)))", "(double *arg +rank(1), int n +implied(size(arg)))",
                "(int *arg +rank(1), int n)"]
# (entry text, documented rule by which check_fcn_attrs must reject the whole function)
BAD_ENTRIES = [
    ("(float *arg +rank(1), int n +implied(size(args)))", "implied-names-an-argument-of-the-same-entry"),
    ("(float *arg +rank(1), int n +implied(size(arg,n)))", "implied-size-takes-one-argument"),
    ("(float *arg +rank(1), int n +implied(size(arg) 3))", "implied-is-one-expression"),
    ("(float *arg +rank(1), int n +intent(out))", "intent-out-only-on-pointer"),
    ("(float *arg +rank(1) +bogus, int n)", "attribute-name-must-be-documented"),
    ("(float *arg +rank(8), int n)", "rank-must-be-0-7"),
    ("(float *arg +rank(1), int n +dimension(3))", "dimension-only-on-pointer"),
    ("(float *arg +rank(1) +dimension(n), int n)", "rank-and-dimension"),
    ("(float *arg +rank(1) +intent(sideways), int n)", "intent-must-be-in-out-inout"),
    ("(float *arg +rank(1) +deref(pointer), int n +deref(pointer))", "deref-only-on-pointer"),
]
UNDOCUMENTED = ["bogus", "foo", "intnet", "Intent", "dim"]


def position_cases():
    """Per-entry and per-position rules: a rule that an argument must satisfy holds wherever an argument can be written -
    (a) an attribute name outside the documented list on a top-level argument, on a parameter of a function-pointer
    argument (any depth), on an argument of any entry of `fortran_generic`, on a function-pointer parameter inside such an
    entry; (b) every entry (first, middle, last, only) of a multi-entry `fortran_generic` list is validated: one bad entry
    by a documented rule among good ones is a reject; all good entries are accepted.
    -> list of (declaration dict, rule, "accept" | "reject")"""
    out = []
    for name in UNDOCUMENTED:
        a = "+" + name
        for shape in ("", "(3)"):
            b = a + shape
            out.append(({"decl": "void f(int *x %s)" % b}, "attribute-name-must-be-documented", "reject"))
            out.append(({"decl": "void f(int n, int *x %s)" % b}, "attribute-name-must-be-documented", "reject"))
            out.append(({"decl": "void f(int n, int (*cb)(int *p %s))" % b}, "attribute-name-must-be-documented", "reject"))
            out.append(({"decl": "void f(int n, int (*cb)(int q, int *p %s))" % b}, "attribute-name-must-be-documented", "reject"))
            out.append(({"decl": "void f(int n, int (*cb)(int p %s))" % b}, "attribute-name-must-be-documented", "reject"))
            out.append(({"decl": "void f(int n, void (*cb)(int (*g)(int *p %s)))" % b}, "attribute-name-must-be-documented", "reject"))
            out.append(({"decl": "void f(double *arg, int (*cb)(int *p))",
                         "fortran_generic": [{"decl": "(float *arg, int (*cb)(int *p %s))" % b}, {"decl": "(double *arg, int (*cb)(int *p))"}]},
                        "attribute-name-must-be-documented", "reject"))
            for n in (1, 2, 3):
                for k in range(n):
                    ents = [{"decl": "(float *arg %s)" % b if i == k else ("(double *arg)", "(int *arg)", "(long *arg)")[i]} for i in range(n)]
                    out.append(({"decl": "void f(double *arg)", "fortran_generic": ents}, "attribute-name-must-be-documented", "reject"))
    base = "void f(double *arg +rank(1), int n +implied(size(arg)))"
    for n in (1, 2, 3):
        out.append(({"decl": base, "fortran_generic": [{"decl": g} for g in GOOD_ENTRIES[:n]]}, "fortran-generic-documented-form", "accept"))
        for k in range(n):
            for bad, rule in BAD_ENTRIES:
                ents = [{"decl": bad if i == k else GOOD_ENTRIES[(i + 1) % 3]} for i in range(n)]
                out.append(({"decl": base, "fortran_generic": ents}, rule, "reject"))
    # two bad entries
    for (b1, r1) in BAD_ENTRIES[:3]:
        for (b2, _) in BAD_ENTRIES[3:6]:
            out.append(({"decl": base, "fortran_generic": [{"decl": b1}, {"decl": GOOD_ENTRIES[1]}, {"decl": b2}]}, r1, "reject"))
    # the documented example (docs/input.rst, fortran_generic) and legal attribute combinations inside entries
    out.append(({"decl": "void GenericReal(double arg)", "fortran_generic": [{"decl": "(float arg)", "function_suffix": "float"},
                                                                              {"decl": "(double arg)", "function_suffix": "double"}]},
                "fortran-generic-documented-form", "accept"))
    out.append(({"decl": "void f(const double *arg +rank(1), int n)", "fortran_generic": [
        {"decl": "(const float *arg +rank(1) +intent(in), int n +intent(in))"}, {"decl": "(const double *arg +rank(1), int n +intent(IN))"}]},
        "fortran-generic-documented-form", "accept"))
    # explicit (redundant) intent(in) on by-value arguments: regression/input/pointers.yaml style
    for v in CASE_VARIANTS("in"):
        out.append(({"decl": "void f(const int argin +intent(%s), int *argout +intent(out))" % v}, "intent-in-on-value-is-legal", "accept"))
        out.append(({"decl": "void f(double arg +intent(%s))" % v}, "intent-in-on-value-is-legal", "accept"))
        out.append(({"decl": "void f(int n, int (*cb)(int p +intent(%s)))" % v}, "intent-in-on-value-is-legal", "accept"))
        out.append(({"decl": "void f(double arg)", "fortran_generic": [{"decl": "(float arg +intent(%s))" % v}, {"decl": "(double arg)"}]},
                    "intent-in-on-value-is-legal", "accept"))
    return out


def run_vattrs(ctx, thorough, ok):
    from shroud import ast as sast, generate, typemap, main as smain
    from tools.props import c17_attrs
    drv = common.Driver("drv_decl")
    cases, known, _ = c17_attrs.attr_cases(thorough)
    expect = {}
    for decl, rule in boundary_cases():
        for lang in ("c", "cxx"):
            label = "boundary %s" % decl
            cases.append((lang, None, [{"decl": decl}], label, ("boundary", decl)))
            expect[(lang, label)] = (rule, "reject") if rule is not None else (None, None)
    for decl, attrs, rule, mode in accept_cases():
        for lang in ("c", "cxx"):
            if "&" in decl and lang == "c":
                continue
            label = "boundary %s%s" % (decl, (" attrs=%r" % (attrs,)) if attrs else "")
            entry = {"decl": decl}
            if attrs:
                entry["attrs"] = attrs
            cases.append((lang, None, [entry], label, ("boundary", decl)))
            expect[(lang, label)] = (rule, mode)
    npos = 0
    for entry, rule, mode in position_cases():
        for lang in ("c", "cxx"):
            label = "boundary %s" % json.dumps(entry, sort_keys=True)
            cases.append((lang, None, [entry], label, ("position", rule, mode, len(entry.get("fortran_generic", [])))))
            expect[(lang, label)] = (rule, mode)
            npos += 1
    bstat = {"position_cases": npos, "cases": 0, "must_reject": 0, "rejected": 0, "accepted_although_illegal": 0, "library_rejected": 0,
             "must_accept": 0, "rejected_although_legal": 0}
    reqs, impl, labels = [], [], []
    stat = {"libraries": 0, "library_rejected_before_verify": 0, "nodes": 0, "outside_model": 0,
            "by_outcome": {}, "by_id": {}}
    with c17_attrs.fast_helpers():
        for lang, opts, decls, label, nt in cases:
            d = c17_attrs.library(lang, decls, opts)
            try:
                with contextlib.redirect_stdout(c17_attrs._NULL):
                    typemap.initialize()
                    lib = sast.create_library_from_dictionary(copy.deepcopy(d))
                    cfg = smain.Config()
                    cfg.log = c17_attrs._NULL
            except (RuntimeError, SystemExit, DeprecationWarning):
                stat["library_rejected_before_verify"] += 1
                if (lang, label) in expect:
                    bstat["cases"] += 1
                    bstat["library_rejected"] += 1
                    if expect[(lang, label)][1] == "accept":
                        ctx.fail("attrs-rejected:" + expect[(lang, label)][0], "[%s] %s is rejected while the library is "
                                 "built although the documentation (%r) allows it" % (lang, label[9:], expect[(lang, label)][0]),
                                 {"kind": "attrs", "yaml": d})
                continue
            except Exception:  # noqa  (an internal exception here is C17's own oracle's business)
                continue
            stat["libraries"] += 1
            v = generate.VerifyAttrs(lib, cfg)
            for kind, node, cls in nodes_of(lib):
                items = enc_decl(node.ast, kind == "fcn")
                gens = getattr(node, "fortran_generic", None) if kind == "fcn" else None
                op = kind
                if items is not None and gens:
                    # `vattrs fcng`: the function, then every fortran_generic entry's parsed argument list
                    op = "fcng"
                    items = items + [str(len(gens))]
                    for g in gens:
                        subs = [enc_decl(p, False) for p in (g.decls or [])]
                        if any(x is None for x in subs):
                            items = None
                            break
                        items.append(str(len(subs)))
                        for x in subs:
                            items += x
                    if items is not None:
                        stat["fortran_generic_functions"] = stat.get("fortran_generic_functions", 0) + 1
                        stat["fortran_generic_entries"] = stat.get("fortran_generic_entries", 0) + len(gens)
                if items is None:
                    stat["outside_model"] += 1
                    continue
                req = "vattrs %s %s %s" % (op, common.encs(list(lib.patterns) if isinstance(lib.patterns, (list, dict)) else []),
                                           " ".join(items))
                try:
                    with contextlib.redirect_stdout(c17_attrs._NULL):
                        if kind == "fcn":
                            v.check_fcn_attrs(node)
                            a = node.ast
                            res = "ok " + ";".join(norm_decl(a) + [x for p in a.params for x in norm_arg(p)]
                                                   + [x for g in (gens or []) for p in (g.decls or []) for x in norm_arg(p)])
                        else:
                            v.check_var_attrs(cls, node)
                            res = "ok"
                except RuntimeError as e:
                    res = "reject " + msg_id(str(e))
                except Exception as e:  # noqa
                    res = "crash " + type(e).__name__
                if (lang, label) in expect and kind == "fcn":
                    rule, mode = expect[(lang, label)]
                    bstat["cases"] += 1
                    if mode == "accept":
                        bstat["must_accept"] += 1
                        if not res.startswith("ok"):
                            bstat["rejected_although_legal"] += 1
                            ctx.fail("attrs-rejected:" + rule, "[%s] %s is not accepted by VerifyAttrs (%s) although the "
                                     "documentation (%r) allows it" % (lang, label[9:], res[:120], rule),
                                     {"kind": "attrs", "yaml": d})
                    elif mode == "reject":
                        bstat["must_reject"] += 1
                        if res.startswith("reject"):
                            bstat["rejected"] += 1
                        elif res.startswith("ok"):
                            bstat["accepted_although_illegal"] += 1
                            ctx.fail("attrs-accepted:" + rule, "[%s] %s is accepted by VerifyAttrs although the documented rule %r "
                                     "forbids it" % (lang, label[9:], rule), {"kind": "attrs", "yaml": d})
                reqs.append(req)
                impl.append(res)
                labels.append("[%s] %s :: %s" % (lang, label, node.ast.gen_decl() if hasattr(node.ast, "gen_decl") else ""))
                stat["nodes"] += 1
                cls_ = res.split(" ")[0]
                stat["by_outcome"][cls_] = stat["by_outcome"].get(cls_, 0) + 1
                if cls_ == "reject":
                    i = res.split(" ", 1)[1].split(":")
                    key = ":".join(i[:2])
                    stat["by_id"][key] = stat["by_id"].get(key, 0) + 1
    ctx.count(len(reqs))
    ctx.note("verifyAttrs_boundary", bstat)
    if not (drv.available() and ok):
        ctx.tie_broken("verifyAttrs-correspondence", "driver not built")
        return
    model = drv.run(reqs)
    dis = []
    for q, a, b, lab in zip(reqs, impl, model, labels):
        if a != b:
            dis.append({"case": lab, "impl": a[:300], "model": b[:300]})
        else:
            ctx.nontrivial("vattrs:" + a[:80])
    stat["disagreements"] = len(dis)
    ctx.note("verifyAttrs_tie", stat)
    if dis:
        ctx.tie_broken("verifyAttrs-correspondence", dis[:6])
