"""C11 Enumeration constants keep their C++ values in C and Fortran.

Proof: lean/ShroudVerif/Props/C11.lean over the model Model/Enum.lean.
Tie (D): real declast parser tree + ast.EnumNode + wrapc/wrapf.wrap_enum member lines vs the Lean driver
drv_enum (names, C_value, F_value per member; the model's reference/evaluator values vs an independent Python
reference evaluator and vs g++/gcc/gfortran).
Oracle (implementation only): (1) every generated enum: the emitted C / Fortran member texts are evaluated with a
small Python evaluator and compared with the value of the C++ original; (2) batches: the C++ original is compiled
with g++, the emitted C text with gcc -std=c99, the emitted Fortran text with gfortran -std=f2008, values compared.
"""
import io
import json
import os
import re
import subprocess
import sys
import tempfile
import types

from tools import common

LEVEL = "proof"
MANIFEST = dict(
    category="proof",
    text="Lean 4 theorems (induction, no size/depth bound) over a model of the enum value logic after the fix: commits "
         "(todict.PrintNode/PrintNodeIdentifier, ast.int_literal, both loops of ast.EnumNode.__init__, the lines "
         "wrapc/wrapf/wrapp.wrap_enum append and their rendering by write_lines). enum_values_preserved: for every "
         "enumeration in the accepted grammar (EnumOK: parser-shaped trees over + - * /, unary signs, parentheses, integer "
         "literals incl. octal, earlier members; plain or scoped; any scope prefix) with cxxEnum ms = some vs, the C "
         "reading of the generated enumerator list and the Fortran reading of the generated parameter statements give "
         "exactly vs. enum_blocks_preserved / enum_fortran_block: the same for the emitted FILE blocks (blank line, "
         "comment, 'enum NAME {', indented members with the last-comma rule, '};' / '!  enum [class] ...', "
         "'integer(C_INT), parameter :: name = value') read back by block parsers (C block needs a non-empty member list; "
         "an enumeration without members writes no C block, empty_enum_writes_no_c_block). value_text_preserved, int_literal_agrees: per expression. "
         "py_value_is_enumerator / py_module_items / py_class_items: the Python wrapper writes one constant per member whose value "
         "expression names that very C++ enumerator (scoped: static_cast<long>(scope::Enum::member)), so the value is the "
         "C++ compiler's by construction; nothing is recomputed. enum_off_for_language_writes_nothing: an enumeration "
         "whose wrap_c / wrap_fortran / wrap_python flag is off (own option or inherited from its class) writes nothing "
         "for that language; the block/value theorems hold under the flag of their own language. No _partial statements. "
         "Lua emits no enumerators.",
    design="3 C11",
    note="Ties (every run): real parser tree + real EnumNode + real wrapc/wrapf/wrapp.wrap_enum items and their rendering "
         "by the real write_lines, and blocks cut from whole-program generated files, vs the compiled Lean driver "
         "(per-member names/values, whole C / Fortran blocks, Python items, wf of every real tree, block readers on the "
         "real text; the emitters with each wrap flag off, on the enum and on its class). Oracles (implementation only): a "
         "switched-off emitter writes nothing and leaves the other languages unchanged; independent Python evaluators on all emitted texts; g++ on the "
         "original vs gcc -std=c99 on the emitted header text, gfortran -std=f2008 on the emitted parameters and a CPython "
         "extension built from the emitted Python lines; grammar-boundary table (21 C++ initialisers outside + - * /: "
         "shifts, | & ^ ~ %, char/hex/suffixed literals, ?:, comparisons, sizeof, qualified names are all rejected with "
         "'Parse Error'; f(1) and outer constants are copied and rejected downstream by gcc/gfortran); range table for "
         "values outside int (correct or compiler diagnostic, except one recorded known finding: an implicit member after "
         "an expression member overflowing C_INT is folded silently by gfortran). Trusted / modelled-not-verified: Lean "
         "kernel; the hand-written model and its C (maximal munch, C89 enumerator list) and Fortran (level-2 expression, "
         "case-insensitive names) observers, validated against the compilers on the oracle batches only; write_lines is "
         "modelled for the +/- directives only (C13 has the full model); the expression tree is the real parser's (C09); "
         "values and intermediate results fit int (mathematical integers in the model); member names are identifiers "
         "(Fortran: start with a letter) and distinct case-insensitively; Python constant names of different enumerations "
         "may collide in one module (noted, not a value question).",
    technique="Lean 4 proof by induction (expression tree, member list, loop invariant) + differential correspondence "
              "model/implementation through a compiled driver + four-compiler oracle (g++, gcc, gfortran, CPython extension)",
)
MODULES = ["ShroudVerif.Props.C11"]
THEOREMS = {
    "ShroudVerif.Props.C11": [
        "Shroud.Enum.enum_values_preserved",
        "Shroud.Enum.enum_c_values",
        "Shroud.Enum.enum_fortran_values",
        "Shroud.Enum.value_text_preserved",
        "Shroud.Enum.int_literal_agrees",
        "Shroud.Enum.enum_blocks_preserved",
        "Shroud.Enum.enum_fortran_block",
        "Shroud.Enum.enum_off_for_language_writes_nothing",
        "Shroud.Enum.py_value_is_enumerator",
        "Shroud.Enum.py_module_items",
        "Shroud.Enum.py_class_items",
        "Shroud.Enum.empty_enum_writes_no_c_block",
        "Shroud.Enum.old_text_1mm1_rejected",
        "Shroud.Enum.old_text_octal_misread",
        "Shroud.Enum.exEnum_ok",
    ]
}

PROPS_LEAN = os.path.join(common.LEAN, "ShroudVerif", "Props", "C11.lean")
SCOPES = ("lib", "ns", "cls")
MAX_FAILS = 8          # recorded failing inputs per oracle (python evaluator / compilers / crashes)
VALUE_LIMIT = 10 ** 6

# member / enum names: valid identifiers in C, C++ and Fortran, no keywords, pairwise distinct
# case-insensitively, no leading underscore (not a Fortran name), never starting with "zq_"
# (reserved for the oracle's program units)
MEMBER_NAMES = ["RED", "Blue", "green", "m3", "a_b", "A", "B", "C", "D", "x", "Y", "Z1", "val_2", "kFoo", "Alpha",
                "beta", "GAMMA", "n0", "Up", "DOWN", "left_", "Right", "w", "Q", "item7", "Lo", "HI", "mid_9",
                "zero", "One", "tw0", "P_1_q"]
ENUM_NAMES = ["E", "E2", "Color", "Kind", "Mode_t", "Dir3", "flags"]


# ====================================================================== independent Python evaluators
# (implementation-only oracle; deliberately separate from the Lean model)
class Undefined(Exception):
    pass


INT_MAX = 2 ** 31 - 1
_WORD = set("abcdefghijklmnopqrstuvwxyzABCDEFGHIJKLMNOPQRSTUVWXYZ0123456789_")
_DIG = set("0123456789")


def _chk(v):
    if not (-INT_MAX - 1 <= v <= INT_MAX):
        raise Undefined("does not fit int")
    return v


def _tdiv(a, b):
    if b == 0:
        raise Undefined("division by zero")
    q = abs(a) // abs(b)
    return q if (a < 0) == (b < 0) else -q


def _lex(text, bad_pairs, fortran):
    toks, i, n = [], 0, len(text)
    while i < n:
        c = text[i]
        if c in " \t\n":
            i += 1
            continue
        if c in _WORD:
            j = i
            while j < n and text[j] in _WORD:
                j += 1
            w = text[i:j]
            if w[0] in _DIG:
                if not all(ch in _DIG for ch in w):
                    raise Undefined("bad number %r" % w)
                toks.append(("num", w))
            else:
                if fortran and w[0] == "_":
                    raise Undefined("bad Fortran name %r" % w)
                toks.append(("id", w.lower() if fortran else w))
            i = j
            continue
        if text[i:i + 2] in bad_pairs:
            raise Undefined("token %r" % text[i:i + 2])
        if c in "+-*/()":
            toks.append((c, c))
            i += 1
            continue
        raise Undefined("character %r" % c)
    return toks


C_BAD = ("++", "--", "//", "/*", "+=", "-=", "*=", "/=", "->")     # maximal munch: none may occur in a constant expression
F_BAD = ("**", "//", "(/", "/)", "/=")


class _P(object):
    def __init__(self, toks, env):
        self.t, self.i, self.env = toks, 0, env

    def peek(self):
        return self.t[self.i][0] if self.i < len(self.t) else None

    def take(self):
        tok = self.t[self.i]
        self.i += 1
        return tok

    def name(self, w):
        if w not in self.env:
            raise Undefined("unknown name %r" % w)
        return self.env[w]


class _PC(_P):
    """C/C++: additive > multiplicative > unary(sign unary) > primary; leading zero = octal."""

    def add(self):
        v = self.mul()
        while self.peek() in ("+", "-"):
            op = self.take()[0]
            w = self.mul()
            v = _chk(v + w if op == "+" else v - w)
        return v

    def mul(self):
        v = self.unary()
        while self.peek() in ("*", "/"):
            op = self.take()[0]
            w = self.unary()
            v = _chk(v * w if op == "*" else _tdiv(v, w))
        return v

    def unary(self):
        if self.peek() in ("+", "-"):
            op = self.take()[0]
            v = self.unary()
            return _chk(-v if op == "-" else v)
        return self.primary()

    def primary(self):
        k = self.peek()
        if k == "num":
            w = self.take()[1]
            if len(w) > 1 and w[0] == "0":
                if any(ch in "89" for ch in w):
                    raise Undefined("bad octal %r" % w)
                return _chk(int(w, 8))
            return _chk(int(w))
        if k == "id":
            return self.name(self.take()[1])
        if k == "(":
            self.take()
            v = self.add()
            if self.peek() != ")":
                raise Undefined("missing )")
            self.take()
            return v
        raise Undefined("unexpected %r" % (k,))


class _PF(_P):
    """Fortran level-2 expression: [sign] term {addop term}; term = primary {mulop primary};
    no sign after an operator; literals decimal."""

    def expr(self):
        sign = None
        if self.peek() in ("+", "-"):
            sign = self.take()[0]
        v = self.term()
        if sign == "-":
            v = _chk(-v)
        while self.peek() in ("+", "-"):
            op = self.take()[0]
            w = self.term()
            v = _chk(v + w if op == "+" else v - w)
        return v

    def term(self):
        v = self.primary()
        while self.peek() in ("*", "/"):
            op = self.take()[0]
            w = self.primary()
            v = _chk(v * w if op == "*" else _tdiv(v, w))
        return v

    def primary(self):
        k = self.peek()
        if k == "num":
            return _chk(int(self.take()[1]))
        if k == "id":
            return self.name(self.take()[1])
        if k == "(":
            self.take()
            v = self.expr()
            if self.peek() != ")":
                raise Undefined("missing )")
            self.take()
            return v
        raise Undefined("unexpected %r" % (k,))


def eval_c(text, env):
    p = _PC(_lex(text, C_BAD, False), env)
    v = p.add()
    if p.i != len(p.t):
        raise Undefined("trailing tokens")
    return v


def eval_f(text, env):
    p = _PF(_lex(text, F_BAD, True), env)
    v = p.expr()
    if p.i != len(p.t):
        raise Undefined("trailing tokens")
    return v


def enum_values_c(members):
    """C / C++ enumeration: [(name, text or None)] -> values (raises Undefined)."""
    env, nxt, out = {}, 0, []
    for name, text in members:
        if name in env:
            raise Undefined("duplicate %r" % name)
        v = nxt if text is None else eval_c(text, env)
        _chk(v)
        env[name] = v
        out.append(v)
        nxt = v + 1
    return out


def module_values_f(lines):
    """Fortran parameter statements in order: [(name, text)] -> values."""
    env, out = {}, []
    for name, text in lines:
        v = eval_f(text, env)
        n = name.lower()
        if n in env:
            raise Undefined("duplicate %r" % n)
        env[n] = v
        out.append(v)
    return out


def try_values(fn, arg):
    try:
        return fn(arg)
    except Undefined as e:
        return "undefined: %s" % e


# ====================================================================== declarations as text
DECL_RE = re.compile(r"^\s*enum\s+(?:(class|struct)\s+)?([A-Za-z_]\w*)\s*\{(.*)\}\s*;?\s*$", re.S)


def split_decl(decl):
    """Own reading of `enum [class|struct] Name { m [= expr], ... }` -> (scoped, name, [(member, text|None)])."""
    m = DECL_RE.match(decl)
    if not m:
        raise ValueError("not an enum declaration: %r" % decl)
    body, parts, depth, cur = m.group(3), [], 0, ""
    for ch in body:
        if ch == "(":
            depth += 1
        elif ch == ")":
            depth -= 1
        if ch == "," and depth == 0:
            parts.append(cur)
            cur = ""
        else:
            cur += ch
    if cur.strip():
        parts.append(cur)
    members = []
    for p in parts:
        if "=" in p:
            n, e = p.split("=", 1)
            members.append((n.strip(), e.strip()))
        else:
            members.append((p.strip(), None))
    return m.group(1), m.group(2), members


def features(members):
    f = set()
    for _n, t in members:
        if t is None:
            continue
        s = re.sub(r"\s+", "", t)
        if re.search(r"[\w)][-+*/][-+]", s):
            f.add("sign_after_op")
        if re.search(r"(^|[(*/])[-+][-+]", s) or re.search(r"[-+][-+][-+]", s):
            f.add("nested_sign")
        if re.search(r"(?<![\w])0\d+", s):
            f.add("octal")
        if "(" in s:
            f.add("paren")
        if re.search(r"[A-Za-z_]", s):
            f.add("uses_member")
        if re.search(r"\d|\w", s) and re.search(r"-", s):
            f.add("minus")
    return f


def make_item(idx, scope, decl, origin):
    scoped, ename, members = split_decl(decl)
    ref = try_values(enum_values_c, members)
    return dict(idx=idx, scope=scope, decl=decl, ename=ename, scoped=scoped, members=members, ref=ref,
                feats=features(members), origin=origin)


# ---------------------------------------------------------------------- generator
def gen_lit(r):
    x = r.random()
    if x < 0.60:
        return str(r.randrange(0, 21))
    if x < 0.80:
        return r.choice(["010", "017", "00", "07", "012", "01", "0777", "0100", "003", "0017"])
    if x < 0.90:
        return r.choice(["100", "255", "1000", "4096", "999", "65535"])
    return str(r.randrange(1, 10))


def gen_atom(r, earlier):
    if earlier and r.random() < 0.42:
        return ("id", r.choice(earlier))
    return ("num", gen_lit(r))


def gen_primary(r, depth, earlier):
    if depth > 0 and r.random() < 0.24:
        return [("lp", "(")] + gen_expr(r, depth - 1, earlier) + [("rp", ")")]
    return [gen_atom(r, earlier)]


def gen_unary(r, depth, earlier):
    ns = r.choice([0, 0, 0, 0, 0, 0, 1, 1, 1, 2])
    return [("sign", r.choice("+--")) for _ in range(ns)] + gen_primary(r, depth, earlier)


def gen_term(r, depth, earlier):
    t = gen_unary(r, depth, earlier)
    for _ in range(r.choice([0, 0, 0, 0, 1, 1, 2])):
        t.append(("op", r.choice("**/")))
        t += gen_unary(r, depth, earlier)
    return t


def gen_expr(r, depth, earlier):
    t = gen_term(r, depth, earlier)
    for _ in range(r.choice([0, 0, 0, 1, 1, 2])):
        t.append(("op", r.choice("+-")))
        t += gen_term(r, depth, earlier)
    return t


def render(r, toks):
    out = []
    for i, (k, t) in enumerate(toks):
        if i:
            pk, pt = toks[i - 1]
            # "+ +" / "- -": without the blank C and C++ read one ++ / -- token
            need = k == "sign" and pk in ("op", "sign") and pt == t
            if need or r.random() < 0.3:
                out.append(" ")
        out.append(t)
    return "".join(out)


TEMPLATES = ["{a} - -{b}", "{a} * -{b}", "{a} + +{b}", "- -{a}", "-+{a}", "-({a})", "{a} / -{b}", "{a}- -{b}*{c}",
             "+{a}", "-{a}", "{a}*{b}", "({a}+{b})*{c}", "{a}-{b}", "- - -{a}", "{a} - +{b}", "-(-{a})", "({a})",
             "{a}+{b}", "{a} - -{b} - -{c}", "{a}*-{b}/-{c}", "{a}/{b}", "-{a}*{b}", "{a}-(-{b})", "+ +{a}", "+-{a}",
             "{a} * +{b}", "{a}/ +{b}", "-{a}/{b}*{c}", "({a} - -{b})", "{a}*({b} - -{c})"]


def gen_member_text(r, depth, earlier):
    x = r.random()
    if x < 0.30:
        t = r.choice(TEMPLATES)
        return t.format(a=gen_atom(r, earlier)[1], b=gen_atom(r, earlier)[1], c=gen_atom(r, earlier)[1])
    return render(r, gen_expr(r, r.randrange(0, depth + 1), earlier))


def gen_enum(r, size, depth):
    n = r.randrange(1, size + 1)
    names = r.sample(MEMBER_NAMES, n)
    members = []
    for i, name in enumerate(names):
        earlier = names[:i]
        x = r.random()
        prev_text = i > 0 and members[-1][1] is not None and not re.match(r"^[-+]?\s*\d+$", members[-1][1])
        if x < (0.55 if prev_text else 0.33):
            members.append((name, None))
            continue
        for _try in range(40):
            if x < 0.62 and not prev_text:
                text = r.choice(["", "", "", "-", "+", "- "]) + gen_lit(r)      # int path of EnumNode
            else:
                text = gen_member_text(r, depth, earlier)
            vals = try_values(enum_values_c, members + [(name, text)])
            if isinstance(vals, list) and abs(vals[-1]) <= VALUE_LIMIT:
                members.append((name, text))
                break
        else:
            members.append((name, None))
    sp = lambda: r.choice(["", " ", " "])
    body = (sp() + "," + sp()).join(n if t is None else n + sp() + "=" + sp() + t for n, t in members)
    if r.random() < 0.05:
        body += sp() + ","
    kind = r.choice(["", "", "", " class", " class", " struct"])
    decl = "enum" + kind + " " + r.choice(ENUM_NAMES) + sp() + "{" + sp() + body + sp() + "}"
    return r.choice(SCOPES), decl


def read_corpus():
    out = []
    path = os.path.join(common.CORPUS, "c11.txt")
    if os.path.exists(path):
        for ln in open(path):
            ln = ln.rstrip("\n")
            if not ln.strip() or ln.lstrip().startswith("#") or "|" not in ln:
                continue
            scope, decl = ln.split("|", 1)
            scope = scope.strip()
            if scope in SCOPES:
                out.append((scope, decl.strip()))
    return out


# ====================================================================== real side
def build_real(scope, decl, off=None, off_on="enum"):
    """parent node and EnumNode through the library path used by tests/test_ast.py.  All three languages under
    test are switched on (wrap_c / wrap_fortran default to true, wrap_python is set) unless `off` names one of
    "c", "fortran", "python": then that wrap option is false on the enum itself (off_on="enum") or on its class
    (off_on="class", scope "cls" only; the enum inherits it)."""
    from shroud import ast
    lib = ast.LibraryNode(options=dict(wrap_python=True))
    ns = lib.add_namespace("ns1")
    offopt = {"wrap_" + off: False} if off else None
    if off and off_on == "class":
        cls = ns.add_class("Cls", options=dict(offopt))
    else:
        cls = ns.add_class("Cls")
    parent = {"lib": lib, "ns": ns, "cls": cls}[scope]
    if parent.nodename == "class":
        # wrapp.wrap_namespace evaluates this template for every class before any enum is wrapped
        parent.eval_template("PY_PyTypeObject")
    if off and off_on == "enum":
        return parent, parent.add_enum(decl, options=dict(offopt))
    return parent, parent.add_enum(decl)


def emit_blocks(node):
    """(C block, Fortran block, Python items) from the three real emitters and the real write_lines."""
    from shroud import wrapc, wrapf, wrapp
    wc = object.__new__(wrapc.Wrapc)
    wc.enum_impl = []
    wc.wrap_enum(None, node)
    cblock = render_real(wc, list(wc.enum_impl), 0, node.options.C_line_length, "")
    wf = object.__new__(wrapf.Wrapf)
    fi = types.SimpleNamespace(enum_impl=[], module_use={})
    wf.wrap_enum(None, node, fi)
    fblock = render_real(wf, list(fi.enum_impl), 1, node.options.F_line_length, " &")
    wp = object.__new__(wrapp.Wrapp)
    wp.enum_impl = []
    wp.wrap_enum(node)
    return cblock, fblock, list(wp.enum_impl)


def block_request_for(parent, node, flags="111"):
    """`block` driver request computed from the parent's format fields only."""
    e = common.enc
    pf = parent.fmtdict
    in_class = parent.nodename == "class"
    nss = pf.namespace_scope + (pf.cxx_class + "::" if pf.get("cxx_class") else "")
    ms = []
    for m in node.ast.members:
        ms.append(e(m.name) if m.value is None else e(m.name) + "=" + ";".join(enc_expr(m.value, [])))
    return " ".join(["block", e(pf.C_prefix + pf.C_name_scope), e(pf.F_name_scope), e(node.ast.name),
                     e(node.ast.scope or ""), e(nss), "1" if in_class else "0",
                     e(pf.PY_PyTypeObject if in_class else ""), flags] + ms)


def enc_expr(node, out):
    from shroud import declast
    e = common.enc
    if isinstance(node, declast.Constant):
        out.append("L:" + e(node.value))
    elif isinstance(node, declast.Identifier) and node.args is None:
        out.append("I:" + e(node.name))
    elif isinstance(node, declast.ParenExpr):
        out.append("P")
        enc_expr(node.node, out)
    elif isinstance(node, declast.UnaryOp) and node.op in ("+", "-"):
        out.append("Up" if node.op == "+" else "Un")
        enc_expr(node.node, out)
    elif isinstance(node, declast.BinaryOp) and node.op in ("+", "-", "*", "/"):
        out.append({"+": "Ba", "-": "Bs", "*": "Bm", "/": "Bd"}[node.op])
        enc_expr(node.left, out)
        enc_expr(node.right, out)
    else:
        raise ValueError("expression node outside the enum value grammar: %s" % type(node).__name__)
    return out


def parse_c_member(line):
    s = line.strip()
    if s.endswith(","):
        s = s[:-1]
    if " = " in s:
        n, v = s.split(" = ", 1)
        return n, v
    return s, None


def parse_f_member(line):
    s = line.strip()
    s = s.split("parameter :: ", 1)[1]
    n, v = s.split(" = ", 1)
    return n, v


_EMIT_MODE = {"mode": "wrap_enum"}


def render_real(w, items, indent, linelen, cont):
    """The real util.WrapperMixin.write_lines on the emitter's items -> physical lines."""
    w.indent, w.linelen, w.cont = indent, linelen, cont
    fp = io.StringIO()
    w.write_lines(fp, items)
    text = fp.getvalue()
    if text == "":
        return []
    lines = text.split("\n")
    if lines[-1] == "":
        lines.pop()
    return lines


def emit(node):
    """What the real emitters write.  dict: c_enum, c_raw / f_raw (member lines), and - when the emitters can be
    called stand-alone - c_items / f_items / py_items (the strings appended to enum_impl) with c_block / f_block /
    py_lines (the same items through the real write_lines: header at indent 0, module body at indent 1)."""
    from shroud import wrapc, wrapf, wrapp, util
    try:
        wc = object.__new__(wrapc.Wrapc)
        wc.enum_impl = []
        wc.wrap_enum(None, node)
        out = wc.enum_impl
        start = [i for i, l in enumerate(out) if isinstance(l, str) and l.startswith("enum ") and l.endswith("{+")][0]
        end = out.index("-};", start)
        c_enum = out[start][5:-2].strip()
        c_raw = list(out[start + 1:end])
        wf = object.__new__(wrapf.Wrapf)
        fi = types.SimpleNamespace(enum_impl=[], module_use={})
        wf.wrap_enum(None, node, fi)
        f_raw = [l for l in fi.enum_impl if isinstance(l, str) and l.startswith("integer(C_INT), parameter :: ")]
        if len(f_raw) != len(c_raw):
            raise AttributeError("unexpected emitter output shape")
        res = dict(c_enum=c_enum, c_raw=c_raw, f_raw=f_raw, c_items=list(out), f_items=list(fi.enum_impl))
    except (AttributeError, TypeError, IndexError, ValueError):
        # emitters not callable stand-alone: same format strings on _fmtmembers
        _EMIT_MODE["mode"] = "fmtmembers"
        node.eval_template("C_enum")
        c_raw, f_raw = [], []
        for member in node.ast.members:
            fmt = node._fmtmembers[member.name]
            if member.value is not None:
                util.append_format(c_raw, "{C_enum_member} = {C_value},", fmt)
            else:
                util.append_format(c_raw, "{C_enum_member},", fmt)
            util.append_format(f_raw, "integer(C_INT), parameter :: {F_enum_member} = {F_value}", fmt)
        if c_raw:
            c_raw[-1] = c_raw[-1][:-1]
        return dict(c_enum=node.fmtdict.C_enum, c_raw=c_raw, f_raw=f_raw)
    try:
        opt = node.options
        res["c_block"] = render_real(wc, res["c_items"], 0, opt.C_line_length, "")
        res["f_block"] = render_real(wf, res["f_items"], 1, opt.F_line_length, " &")
        wp = object.__new__(wrapp.Wrapp)
        wp.enum_impl = []
        wp.wrap_enum(node)
        res["py_items"] = list(wp.enum_impl)
        res["py_lines"] = render_real(wp, res["py_items"], 0, opt.C_line_length, "")
    except (AttributeError, TypeError, IndexError, ValueError, KeyError) as ex:
        _EMIT_MODE["blocks"] = "unavailable: %s: %s" % (type(ex).__name__, ex)
    return res


def real_side(it):
    """Fills it with the real tree / emitted lines / driver requests.  Returns None or ("crash"|"encode", detail);
    after "encode" the emitted lines are present (the tree has a node the driver protocol cannot carry)."""
    e = common.enc
    try:
        parent, node = build_real(it["scope"], it["decl"])
    except (Exception, SystemExit) as ex:  # noqa  (util.wformat stops with SystemExit)
        return ("crash", "%s: %s" % (type(ex).__name__, ex))
    try:
        em = emit(node)
    except (Exception, SystemExit) as ex:  # noqa  (util.wformat stops with SystemExit)
        return ("crash", "emit %s: %s" % (type(ex).__name__, ex))
    it.update(em)
    it["c_lines"] = [parse_c_member(l) for l in em["c_raw"]]
    it["f_lines"] = [parse_f_member(l) for l in em["f_raw"]]
    it["in_class"] = parent.nodename == "class"
    try:
        pf = parent.fmtdict
        cpre = pf.C_prefix + pf.C_name_scope
        fpre = pf.F_name_scope
        # EnumNode: namespace_scope of the parent, plus "Class::" when the format scope has a cxx_class
        nss = pf.namespace_scope + (pf.cxx_class + "::" if pf.get("cxx_class") else "")
        pytype = pf.PY_PyTypeObject if it["in_class"] else ""
        it["pytype"] = pytype
        ms = []
        for m in node.ast.members:
            if m.value is None:
                ms.append(e(m.name))
            else:
                ms.append(e(m.name) + "=" + ";".join(enc_expr(m.value, [])))
        it["request"] = " ".join(["enum", e(cpre), e(fpre), e(it["ename"]), "1" if node.ast.scope is not None else "0"] + ms)
        it["block_request"] = " ".join(["block", e(cpre), e(fpre), e(it["ename"]), e(node.ast.scope or ""), e(nss),
                                        "1" if it["in_class"] else "0", e(pytype), "111"] + ms)
    except ValueError as ex:
        return ("encode", str(ex))
    return None


def parse_vals(t):
    if t == "none":
        return None
    if t == "~":
        return []
    return [int(x) for x in t.split(",")]


def parse_answer(line):
    p = line.split(" ")
    if p[0] != "ok" or len(p) != 6:
        return None
    members = []
    if p[5] != "~":
        for m in p[5].split(";"):
            f = m.split("|")
            members.append((common.dec(f[0]), None if f[1] == "~" else common.dec(f[1]), common.dec(f[2]), common.dec(f[3])))
    return dict(wf=p[1] == "1", cxx=parse_vals(p[2]), evalC=parse_vals(p[3]), evalF=parse_vals(p[4]), members=members)


# ---------------------------------------------------------------------- whole program
def yaml_for(scope, decl):
    q = json.dumps(decl)
    y = "library: library\noptions:\n  wrap_python: false\n  wrap_lua: false\ndeclarations:\n"
    if scope == "lib":
        y += "- decl: %s\n" % q
    elif scope == "ns":
        y += "- decl: namespace ns1\n  declarations:\n  - decl: %s\n" % q
    else:
        y += "- decl: namespace ns1\n  declarations:\n  - decl: class Cls\n    declarations:\n    - decl: %s\n" % q
    return y


def whole_program(it, d):
    """Run main_with_args on a YAML holding the enum; return dict(c_members, f_members, c_block, f_block) read from
    the generated files (blocks: blank line, comment, ... as written), or a string describing why not."""
    from tools import shroudrun
    od = tempfile.mkdtemp(prefix="wp", dir=d)
    try:
        p = shroudrun.write_yaml(od, "t.yaml", yaml_for(it["scope"], it["decl"]))
        _cfg, exc, _out = shroudrun.run_inproc([p], od)
        if exc is not None:
            return "shroud raised %s: %s" % (type(exc).__name__, exc)
        res = {}
        for fn in sorted(os.listdir(od)):
            if fn.endswith(".h"):
                lines = open(os.path.join(od, fn)).read().split("\n")
                for i, l in enumerate(lines):
                    if l.strip() == "enum %s {" % it["c_enum"]:
                        body, j = [], i + 1
                        while j < len(lines) and lines[j].strip() != "};":
                            body.append(lines[j].strip())
                            j += 1
                        res["c_members"] = body
                        res["c_block"] = lines[max(0, i - 2):j + 1]
            elif fn.endswith(".f"):
                lines = open(os.path.join(od, fn)).read().split("\n")
                for i, l in enumerate(lines):
                    if l.strip().startswith("!  enum "):
                        body, j = [], i + 1
                        while j < len(lines) and lines[j].strip().startswith("integer(C_INT), parameter :: "):
                            body.append(lines[j].strip())
                            j += 1
                        res["f_members"] = body
                        res["f_block"] = lines[max(0, i - 1):j]
        if "c_members" not in res or "f_members" not in res:
            return "enum not found in generated files %s" % sorted(os.listdir(od))
        return res
    finally:
        common.rmtree(od)


def python_name_collision(d):
    """Observation (not a failure of C11): the Python wrapper adds the bare member names to one module object."""
    from tools import shroudrun
    od = tempfile.mkdtemp(prefix="pc", dir=d)
    try:
        y = ("library: library\noptions:\n  wrap_python: true\n  wrap_lua: false\n  wrap_c: false\n  wrap_fortran: false\n"
             "declarations:\n- decl: enum class E1 { A = 1 }\n- decl: enum class E2 { A = 2 }\n")
        p = shroudrun.write_yaml(od, "t.yaml", y)
        _cfg, exc, _out = shroudrun.run_inproc([p], od)
        if exc is not None:
            return {"measured": "shroud raised %s: %s" % (type(exc).__name__, exc)}
        hits = []
        for fn in sorted(os.listdir(od)):
            if fn.endswith(".cpp"):
                for l in open(os.path.join(od, fn)).read().split("\n"):
                    if "PyModule_AddIntConstant" in l:
                        hits.append("%s: %s" % (fn, l.strip()))
        same = [h for h in hits if '"A"' in h]
        return {"input": "enum class E1 { A = 1 }; enum class E2 { A = 2 } at library scope", "generated": hits,
                "finding": ("Python constant names are the bare member names added to one module object: %d "
                            "PyModule_AddIntConstant(m, \"A\", ...) calls are generated for the two enumerations, so after import "
                            "module.A is the value of the last one (E2::A = 2) and E1::A = 1 is not reachable; each written value is "
                            "the right C++ enumerator, the names collide" % len(same)) if len(same) > 1 else
                           "no collision measured (%d lines with \"A\")" % len(same)}
    finally:
        common.rmtree(od)


# ====================================================================== three compilers
class CompileError(Exception):
    pass


FFLAGS = ["-std=f2008", "-w", "-ffree-line-length-none"]


def _sh(cmd, cwd):
    p = subprocess.run(cmd, cwd=cwd, stdout=subprocess.PIPE, stderr=subprocess.STDOUT, text=True, timeout=600)
    return p.returncode, p.stdout


def _parse_out(out, items):
    res = {it["idx"]: [] for it in items}
    for ln in out.split("\n"):
        f = ln.split()
        if len(f) == 3:
            res[int(f[0])].append(int(f[2]))
    return res


def _finish(sub, exe, items):
    rc, out = _sh([os.path.join(sub, exe)], sub)
    if rc != 0:
        raise CompileError("program failed rc=%s %s" % (rc, out[-300:]))
    res = _parse_out(out, items)
    for it in items:
        if len(res[it["idx"]]) != len(it["members"]):
            raise CompileError("program printed %d values for %d members" % (len(res[it["idx"]]), len(it["members"])))
    return res


def plain_decl(it):
    decl = it["decl"].strip()
    return decl[:-1] if decl.endswith(";") else decl


def run_cxx(items, d):
    sub = tempfile.mkdtemp(prefix="cxx", dir=d)
    src = ["#include <cstdio>"]
    for it in items:
        src.append("namespace t%d { %s %s; }" % (it["idx"], it.get("prelude", ""), plain_decl(it)))
    src.append("int main() {")
    for it in items:
        for k, (n, _t) in enumerate(it["members"]):
            src.append('  std::printf("%%d %%d %%lld\\n", %d, %d, static_cast<long long>(t%d::%s::%s));'
                       % (it["idx"], k, it["idx"], it["ename"], n))
    src.append("  return 0;\n}")
    open(os.path.join(sub, "o.cpp"), "w").write("\n".join(src) + "\n")
    std = "c++14" if any(it.get("cxxstd") == "c++14" for it in items) else "c++11"
    rc, out = _sh(["g++", "-std=" + std, "-w", "-O0", "o.cpp", "-o", "prog"], sub)
    if rc != 0:
        raise CompileError(out[:800])
    return _finish(sub, "prog", items)


def c_header_text(it):
    return "enum %s {\n%s\n};\n" % (it["c_enum"], "\n".join("    " + l for l in it["c_raw"]))


def run_c(items, d):
    """One translation unit per enum: the emitted enum at file scope, as in the generated header."""
    sub = tempfile.mkdtemp(prefix="c", dir=d)
    files = []
    main = ["#include <stdio.h>"]
    for it in items:
        i = it["idx"]
        src = ["#include <stdio.h>", c_header_text(it), "void zq_p%d(void) {" % i]
        for k, (n, _v) in enumerate(it["c_lines"]):
            src.append('  printf("%%d %%d %%lld\\n", %d, %d, (long long) %s);' % (i, k, n))
        src.append("}")
        fn = "e%d.c" % i
        open(os.path.join(sub, fn), "w").write("\n".join(src) + "\n")
        files.append(fn)
        main.append("void zq_p%d(void);" % i)
    main.append("int main(void) {")
    main += ["  zq_p%d();" % it["idx"] for it in items]
    main.append("  return 0;\n}")
    open(os.path.join(sub, "main.c"), "w").write("\n".join(main) + "\n")
    rc, out = _sh(["gcc", "-std=c99", "-w", "-O0"] + files + ["main.c", "-o", "prog"], sub)
    if rc != 0:
        raise CompileError(out[:800])
    return _finish(sub, "prog", items)


def f_module_text(it):
    i = it["idx"]
    src = ["module zq_mod%d" % i, "  use iso_c_binding, only : C_INT", "  implicit none"]
    src += ["  " + l for l in it["f_raw"]]
    src.append("end module zq_mod%d" % i)
    return src


def run_f(items, d):
    sub = tempfile.mkdtemp(prefix="f", dir=d)
    src = []
    for it in items:
        i = it["idx"]
        src += f_module_text(it)
        src += ["subroutine zq_sub%d()" % i, "  use zq_mod%d" % i, "  implicit none"]
        for k, (n, _v) in enumerate(it["f_lines"]):
            src.append("  print '(i0,1x,i0,1x,i0)', %d, %d, %s" % (i, k, n))
        src.append("end subroutine zq_sub%d" % i)
    src.append("program zq_main")
    src += ["  call zq_sub%d()" % it["idx"] for it in items]
    src.append("end program zq_main")
    open(os.path.join(sub, "o.f90"), "w").write("\n".join(src) + "\n")
    rc, out = _sh(["gfortran"] + FFLAGS + ["o.f90", "-o", "prog"], sub)
    if rc != 0:
        raise CompileError(out[:800])
    return _finish(sub, "prog", items)


def cxx_in_scope(it):
    """The C++ original where the YAML places it: library scope, namespace ns1, class ns1::Cls."""
    decl = plain_decl(it)
    if it["scope"] == "lib":
        return decl + ";"
    if it["scope"] == "ns":
        return "namespace ns1 { %s; }" % decl
    return "namespace ns1 { class Cls { public: %s; }; }" % decl


PY_READER = r"""
import importlib.util, json, sys
spec = importlib.util.spec_from_file_location("zqext", sys.argv[1])
mod = importlib.util.module_from_spec(spec)
spec.loader.exec_module(mod)
for i, incls, names in json.load(open(sys.argv[2])):
    holder = getattr(mod, "t%d" % i)
    if incls:
        holder = holder.Cls
    for k, n in enumerate(names):
        print(i, k, getattr(holder, n))
"""


def py_ext_source(items):
    src = ["#include <Python.h>"]
    for it in items:
        i = it["idx"]
        pyt = it.get("pytype") or "PY_Cls_Type"
        src += ["namespace t%d {" % i, it.get("prelude", ""), cxx_in_scope(it),
                "static PyTypeObject %s = {PyVarObject_HEAD_INIT(NULL, 0)};" % pyt,
                "static void add(PyObject *m) {"]
        src += it["py_lines"]          # the real wrapp.wrap_enum items through the real write_lines
        src += ["}",
                "static int init(PyObject *top) {",
                '  PyObject *mi = PyModule_New("t%d");' % i,
                "  if (mi == NULL) return -1;",
                '  %s.tp_name = "t%d.Cls"; %s.tp_basicsize = sizeof(PyObject); %s.tp_flags = Py_TPFLAGS_DEFAULT;' % (pyt, i, pyt, pyt),
                "  if (PyType_Ready(&%s) < 0) return -1;" % pyt,
                "  add(mi);",
                "  if (PyErr_Occurred()) return -1;",
                "  PyType_Modified(&%s);" % pyt,
                "  Py_INCREF(&%s);" % pyt,
                '  if (PyModule_AddObject(mi, "Cls", (PyObject *) &%s) < 0) return -1;' % pyt,
                '  return PyModule_AddObject(top, "t%d", mi);' % i,
                "}", "}"]
    src += ['static struct PyModuleDef zq_def = {PyModuleDef_HEAD_INIT, "zqext", NULL, -1, NULL};',
            "PyMODINIT_FUNC PyInit_zqext(void) {",
            "  PyObject *top = PyModule_Create(&zq_def);",
            "  if (top == NULL) return NULL;"]
    src += ["  if (t%d::init(top) < 0) return NULL;" % it["idx"] for it in items]
    src += ["  return top;", "}"]
    return "\n".join(src) + "\n"


def run_py(items, d):
    """CPython extension holding, per enum, the C++ original in its scope and the real emitted Python lines."""
    import sysconfig
    sub = tempfile.mkdtemp(prefix="py", dir=d)
    for it in items:
        if "py_lines" not in it:
            raise CompileError("no emitted Python lines for this enumeration")
    open(os.path.join(sub, "ext.cpp"), "w").write(py_ext_source(items))
    std = "c++14" if any(it.get("cxxstd") == "c++14" for it in items) else "c++11"
    rc, out = _sh(["g++", "-std=" + std, "-shared", "-fPIC", "-w", "-O0", "-I" + sysconfig.get_paths()["include"],
                   "ext.cpp", "-o", "zqext.so"], sub)
    if rc != 0:
        raise CompileError(out[:800])
    open(os.path.join(sub, "reader.py"), "w").write(PY_READER)
    json.dump([[it["idx"], bool(it.get("in_class")), [n for n, _t in it["members"]]] for it in items],
              open(os.path.join(sub, "spec.json"), "w"))
    rc, out = _sh([sys.executable, "reader.py", os.path.join(sub, "zqext.so"), "spec.json"], sub)
    if rc != 0:
        raise CompileError("import/read failed rc=%s %s" % (rc, out[-400:]))
    res = _parse_out(out, items)
    for it in items:
        if len(res[it["idx"]]) != len(it["members"]):
            raise CompileError("extension gave %d values for %d members" % (len(res[it["idx"]]), len(it["members"])))
    return res


RUNNERS = {"cxx": run_cxx, "c": run_c, "f": run_f, "py": run_py}
NOT_RUN = "not run: the C++ original does not compile"


def compile_batch(items, d, langs=("cxx", "c", "f", "py")):
    """{idx: {"cxx": values | "error: ...", "c": ..., "f": ..., "py": ...}}; a failing batch is bisected to single
    enums.  The C++ original goes first; the emitted texts are only tried for originals that compile."""
    res = {it["idx"]: {} for it in items}
    todo = list(items)
    for lang in langs:
        fn = RUNNERS[lang]
        try:
            vals = fn(todo, d) if todo else {}
            for it in todo:
                res[it["idx"]][lang] = vals[it["idx"]]
        except CompileError:
            for it in todo:
                try:
                    res[it["idx"]][lang] = fn([it], d)[it["idx"]]
                except CompileError as e1:
                    res[it["idx"]][lang] = "error: " + " ".join(str(e1).split())[:500]
        if lang == "cxx":
            todo = [it for it in items if isinstance(res[it["idx"]]["cxx"], list)]
            for it in items:
                if it not in todo:
                    for l2 in langs:
                        res[it["idx"]].setdefault(l2, NOT_RUN)
    return res


LANGNAME = {"c": "C", "f": "Fortran", "py": "Python"}
LANGKEY = {"c": "c", "f": "f", "py": "pyext"}
LANGTOOL = {"c": "gcc", "f": "gfortran", "py": "g++ / CPython extension"}


def where(it):
    return "%s | %s" % (it["scope"], it["decl"])


def emitted_of(it, lang):
    return {"c": it.get("c_raw"), "f": it.get("f_raw"), "py": it.get("py_lines")}[lang] or []


def judge_compiled(ctx, it, r, fails):
    """Implementation-only verdict for one enum from the compilers.  Returns 'skipped' | 'ok' | 'bad'."""
    cxx = r["cxx"]
    if not isinstance(cxx, list):
        return "skipped"
    verdict = "ok"
    for lang in ("c", "f", "py"):
        if lang not in r:
            continue
        got = r[lang]
        raw = emitted_of(it, lang)
        if not isinstance(got, list):
            verdict = "bad"
            if len(fails) < MAX_FAILS:
                what = ("the %s text generated for `%s` (scope %s) does not compile while the C++ original does: %s; emitted: %s"
                        % (LANGNAME[lang], it["decl"], it["scope"], got, " / ".join(l.strip() for l in raw)))
                if ctx.fail("compile-error:%s:%s" % (LANGKEY[lang], where(it)), what, {"scope": it["scope"], "decl": it["decl"]}):
                    fails.append(it["idx"])
            continue
        for k, (n, _t) in enumerate(it["members"]):
            if got[k] != cxx[k]:
                verdict = "bad"
                if len(fails) < MAX_FAILS:
                    line = raw[k].strip() if lang != "py" else " ".join(l.strip() for l in raw if '"%s"' % n in l)
                    what = ("`%s` (scope %s): member %s is %d in C++ (g++) but %d in the generated %s (%s): %s"
                            % (it["decl"], it["scope"], n, cxx[k], got[k], LANGNAME[lang], LANGTOOL[lang], line))
                    if ctx.fail("value-mismatch:%s:%s" % (LANGKEY[lang], where(it)), what, {"scope": it["scope"], "decl": it["decl"]}):
                        fails.append(it["idx"])
                break
    return verdict


def classify(it, r):
    """Per language: 'correct' | 'diagnostic: ...' | 'SILENT-WRONG: ...' against the g++ values of the original."""
    cxx = r["cxx"]
    out = {}
    for lang in ("c", "f", "py"):
        got = r.get(lang)
        if got is None:
            continue
        if not isinstance(got, list):
            msg = got
            m = re.search(r"(?:[Ee]rror:?|error: \S+ error:)\s*(.{0,140})", got)
            if m:
                msg = m.group(0)
            out[lang] = "diagnostic: " + msg[:170]
        elif got == cxx:
            out[lang] = "correct"
        else:
            out[lang] = "SILENT-WRONG: %s instead of %s" % (got, cxx)
    return out


# ====================================================================== block tie
def encl(lines):
    return " ".join(common.enc(l) for l in lines)


def first_diff(a, b):
    for j in range(max(len(a), len(b))):
        x = a[j] if j < len(a) else None
        y = b[j] if j < len(b) else None
        if x != y:
            return {"index": j, "impl": x, "model": y}
    return None


def block_tie(ctx, drv, live, suspects):
    """(A) the model's file blocks / Python items vs the real emitter items rendered by the real write_lines;
    the model's block reader on its own blocks and on the real text."""
    bitems = [it for it in live if "c_block" in it and "py_items" in it and "block_request" in it]
    if len(bitems) != len(live):
        ctx.tie_broken("block-correspondence", "emitters not callable stand-alone for %d enumerations: %s"
                       % (len(live) - len(bitems), _EMIT_MODE.get("blocks", _EMIT_MODE["mode"])))
    reqs = []
    for it in bitems:
        reqs += [it["block_request"], "evbc " + encl(it["c_block"]), "evbf " + encl(it["f_block"])]
    ans = drv.run(reqs)
    bdis, ebc, ebf, rbc, rbf, proto = [], [], [], [], [], []
    for j, it in enumerate(bitems):
        a, ac, af = ans[3 * j:3 * j + 3]
        p = a.split(" ")
        if p[0] != "ok" or len(p) != 6 or not ac.startswith("ok ") or not af.startswith("ok "):
            proto.append({"request": it["block_request"], "answers": [a, ac, af]})
            continue
        mc, mf, mp = common.decs(p[1]), common.decs(p[2]), common.decs(p[3])
        it["model_blocks"] = {"c": mc, "f": mf}
        for part, real, model in (("c-block", it["c_block"], mc), ("fortran-block", it["f_block"], mf), ("python-items", it["py_items"], mp)):
            if real != model:
                bdis.append(dict(first_diff(real, model), scope=it["scope"], decl=it["decl"], part=part))
                suspects.setdefault(it["idx"], "block-correspondence")
        for vals, bucket, what in ((parse_vals(p[4]), ebc, "model evalBlockC of the model's block"),
                                   (parse_vals(p[5]), ebf, "model evalBlockF of the model's block")):
            if vals != it["ref"]:
                bucket.append({"scope": it["scope"], "decl": it["decl"], "what": what, "values": vals, "reference": it["ref"]})
                suspects.setdefault(it["idx"], "evalBlock")
        for vals, bucket, lines in ((parse_vals(ac[3:]), rbc, it["c_block"]), (parse_vals(af[3:]), rbf, it["f_block"])):
            if vals != it["ref"]:
                bucket.append({"scope": it["scope"], "decl": it["decl"], "what": "block reader on the real rendered text",
                               "values": vals, "reference": it["ref"], "lines": lines})
                suspects.setdefault(it["idx"], "evalBlock")
    if proto:
        ctx.tie_broken("driver-protocol", proto[:5])
    if bdis:
        ctx.tie_broken("block-correspondence", bdis[:6])
    if ebc or rbc:
        ctx.tie_broken("evalBlockC", (ebc + rbc)[:5])
    if ebf or rbf:
        ctx.tie_broken("evalBlockF", (ebf + rbf)[:5])
    ctx.count(3 * len(bitems))
    ctx.note("blocks", {"enums": len(bitems), "block_or_python_item_differences": len(bdis),
                        "evalBlockC_model_block": len(ebc), "evalBlockF_model_block": len(ebf),
                        "evalBlockC_real_text": len(rbc), "evalBlockF_real_text": len(rbf)})


# ====================================================================== (C) grammar boundary: diagnostic or correct
BOUNDARY = ["1 << 3", "A0 | 2", "6 & 3", "~1", "7 % 3", "'a'", "0x10", "1 ^ 2", "(1 << 2) | 1", "sizeof(int)",
            "1 ? 2 : 3", "!0", "1 < 2", "1 == 1", "1u", "1L", "0b11", "E::A0", "A0 >> 1", "1 && 1", "-1 * ~0"]
# forms the parser accepts although they are outside the + - * / grammar: (initialiser, C++ text needed before the enum)
ACCEPTED_FORMS = [("1.5", ""), ("1e2", ""), ("f(1)", "constexpr int f(int x){return x+1;}"), ("N", "const int N = 5;")]


def shroud_outcome(scope, decl, d):
    """Whole program on a YAML with the enum: ("rejected", message) | ("accepted", None) | ("partial", message)."""
    from tools import shroudrun
    od = tempfile.mkdtemp(prefix="gb", dir=d)
    try:
        p = shroudrun.write_yaml(od, "t.yaml", yaml_for(scope, decl))
        _cfg, exc, _out = shroudrun.run_inproc([p], od)
        has = False
        for fn in sorted(os.listdir(od)):
            if (fn.startswith("wrap") and fn.endswith(".h")) or (fn.startswith("wrapf") and fn.endswith(".f")):
                txt = open(os.path.join(od, fn)).read()
                if re.search(r"^\s*enum \w+ \{", txt, re.M) or "!  enum " in txt:
                    has = True
        if exc is not None:
            msg = "%s: %s" % (type(exc).__name__, " ".join(str(exc).split())[:160])
            return ("partial", msg) if has else ("rejected", msg)
        return ("accepted", None)
    finally:
        common.rmtree(od)


def boundary_oracle(ctx, d):
    outcome, accepted, idx = {}, [], 900000
    table = [(v, "", True) for v in BOUNDARY] + [(v, pre, False) for v, pre in ACCEPTED_FORMS]
    n = 0
    for v, prelude, strict in table:
        per_scope = {}
        for scope in SCOPES:
            decl = "enum E { A0 = 1, B = %s }" % v
            replay = {"scope": scope, "decl": decl, "prelude": prelude, "cxxstd": "c++14"}
            n += 2
            try:
                build_real(scope, decl)
                lib_res = ("accepted", None)
            except RuntimeError as ex:
                first = str(ex).strip().split("\n")[0]
                lib_res = ("rejected", first) if "Parse Error" in str(ex) else ("other", "RuntimeError: " + first)
            except (Exception, SystemExit) as ex:  # noqa  (util.wformat stops with SystemExit)
                lib_res = ("other", "%s: %s" % (type(ex).__name__, " ".join(str(ex).split())[:120]))
            prog_res = shroud_outcome(scope, decl, d)
            if lib_res[0] == "other" or prog_res[0] == "partial":
                per_scope[scope] = "NOT-A-DIAGNOSTIC: add_enum %s / whole program %s" % (lib_res, prog_res)
                ctx.fail("grammar-boundary:" + v, "`%s` (scope %s) is neither rejected with a parse error nor accepted: add_enum -> %s; "
                         "whole program -> %s" % (decl, scope, lib_res[1], prog_res), replay)
                continue
            if lib_res[0] != prog_res[0]:
                per_scope[scope] = "INCONSISTENT: add_enum %s, whole program %s" % (lib_res[0], prog_res[0])
                ctx.fail("grammar-boundary:" + v, "`%s` (scope %s): add_enum %s but the whole program %s it"
                         % (decl, scope, lib_res[0], prog_res[0]), replay)
                continue
            if lib_res[0] == "rejected":
                per_scope[scope] = "rejected: " + lib_res[1]
                continue
            it = make_item(idx, scope, decl, "boundary")
            idx += 1
            it.update(prelude=prelude, cxxstd="c++14", strict=strict, v=v, replay=replay)
            why = real_side(it)
            if why is not None and why[0] == "crash":
                per_scope[scope] = "NOT-A-DIAGNOSTIC: accepted by the parser, then %s" % why[1]
                ctx.fail("grammar-boundary:" + v, "`%s` (scope %s) is accepted by the parser, then %s" % (decl, scope, why[1]), replay)
                continue
            if strict and (why is not None or "block_request" not in it):
                ctx.tie_broken("grammar", {"scope": scope, "decl": decl, "why": why})
            accepted.append(it)
            per_scope[scope] = "accepted"
        outcome[v] = per_scope
    res = compile_batch(accepted, d) if accepted else {}
    for it in accepted:
        rr = res[it["idx"]]
        n += 1
        v, scope = it["v"], it["scope"]
        if not isinstance(rr["cxx"], list):
            outcome[v][scope] = "accepted; the C++ original is rejected by g++ (ill-formed C++, nothing to preserve): " + \
                " ".join(rr["cxx"].split())[:140]
            continue
        cl = classify(it, rr)
        emitted = {"c": [l.strip() for l in it["c_raw"]], "f": [l.split(":: ", 1)[1] for l in it["f_raw"]]}
        bad = [l for l in ("c", "f", "py") if cl.get(l, "").startswith("SILENT-WRONG")]
        diag = [l for l in ("c", "f", "py") if cl.get(l, "").startswith("diagnostic")]
        if bad or (it["strict"] and diag):
            outcome[v][scope] = "SILENTLY MIS-EMITTED: %s" % cl
            ctx.fail("grammar-boundary:" + v,
                     "`%s` (scope %s) is accepted without a diagnostic and silently mis-emitted: g++ values %s; %s; emitted C %s, Fortran %s"
                     % (it["decl"], scope, rr["cxx"], cl, emitted["c"], emitted["f"]), it["replay"])
        elif diag:
            outcome[v][scope] = "accepted; downstream-diagnostic: " + "; ".join("%s %s" % (LANGNAME[l], cl[l]) for l in ("c", "f", "py") if l in cl) + \
                "; emitted C %s, Fortran %s" % (emitted["c"], emitted["f"])
        else:
            outcome[v][scope] = "accepted-correct"
    flat = {}
    for v, ps in outcome.items():
        vals = set(ps.values())
        flat[v] = vals.pop() if len(vals) == 1 else ps
    ctx.count(n)
    ctx.note("grammar_boundary", flat)


def empty_enum_observation(ctx, d):
    """Enumerations without members (legal C++; no enumerator to compare).  Tie: what the three real emitters
    write for `enum E {}` / `enum class E {}` at the three scopes vs the model's blocks (the C header declares
    nothing, fix 7351f39).  Oracle: the real C block must be acceptable to gcc."""
    from shroud import wrapc, wrapf, wrapp
    e = common.enc
    drv = common.Driver("drv_enum")
    reqs, reals = [], []
    for scope in SCOPES:
        for decl in ("enum E {}", "enum class E {}"):
            try:
                parent, node = build_real(scope, decl)
                wc = object.__new__(wrapc.Wrapc)
                wc.enum_impl = []
                wc.wrap_enum(None, node)
                cblock = render_real(wc, list(wc.enum_impl), 0, node.options.C_line_length, "")
                wf = object.__new__(wrapf.Wrapf)
                fi = types.SimpleNamespace(enum_impl=[], module_use={})
                wf.wrap_enum(None, node, fi)
                fblock = render_real(wf, list(fi.enum_impl), 1, node.options.F_line_length, " &")
                wp = object.__new__(wrapp.Wrapp)
                wp.enum_impl = []
                wp.wrap_enum(node)
                pyitems = list(wp.enum_impl)
            except (Exception, SystemExit) as ex:  # noqa  (util.wformat stops with SystemExit)
                ctx.note("empty_enum", "diagnostic: %s: %s" % (type(ex).__name__, ex))
                ctx.tie_broken("empty-enum-emitters", "%s | %s: %s: %s" % (scope, decl, type(ex).__name__, ex))
                return
            pf = parent.fmtdict
            in_class = parent.nodename == "class"
            nss = pf.namespace_scope + (pf.cxx_class + "::" if pf.get("cxx_class") else "")
            reqs.append(" ".join(["block", e(pf.C_prefix + pf.C_name_scope), e(pf.F_name_scope), e("E"),
                                  e(node.ast.scope or ""), e(nss), "1" if in_class else "0",
                                  e(pf.PY_PyTypeObject if in_class else ""), "111"]))
            reals.append((scope, decl, cblock, fblock, pyitems))
    bad = []
    if drv.available():
        for (scope, decl, cblock, fblock, pyitems), ans in zip(reals, drv.run(reqs)):
            p = ans.split(" ")
            ctx.count(1)
            if p[0] != "ok" or len(p) < 6:
                bad.append({"scope": scope, "decl": decl, "model": ans[:200]})
                continue
            model = (common.decs(p[1]), common.decs(p[2]), common.decs(p[3]))
            if model != (cblock, fblock, pyitems) or p[5] != "~":
                bad.append({"scope": scope, "decl": decl, "impl": [cblock, fblock, pyitems], "model": list(model),
                            "evalBlockF": p[5]})
    else:
        bad.append("driver not built")
    if bad:
        ctx.tie_broken("empty-enum-blocks", bad[:4])
    # implementation-only: gcc on the real C block of `enum E {}` at library scope
    block = reals[0][2]
    sub = tempfile.mkdtemp(prefix="ee", dir=d)
    open(os.path.join(sub, "e.c"), "w").write("\n".join(block) + "\nint main(void) { return 0; }\n")
    rc, out = _sh(["gcc", "-std=c99", "-w", "e.c", "-o", "prog"], sub)
    ctx.count(1)
    ctx.note("empty_enum", {"c_block": block, "f_block": reals[0][3], "gcc": "accepted" if rc == 0 else " ".join(out.split())[:200],
                            "tie_cases": len(reals), "tie_disagreements": len(bad)})
    if rc != 0:
        ctx.fail("empty-enum:c-block", "enum E {} (legal C++) is written to the C header as %s, which gcc -std=c99 rejects: %s"
                 % (block, " ".join(out.split())[:200]), {"scope": "lib", "decl": "enum E {}"})


WRAP_FLAG_DECLS = ["enum E { A = 010 }", "enum class E2 { a=1, b = a*2, c }", "enum Color { RED, Blue = RED - -2, green }"]


def wrap_flag_tie(ctx):
    """ff85eaa: an enumeration whose wrap_c / wrap_fortran / wrap_python option is off (on the enum, or inherited
    from its class) writes nothing for that language and is unchanged for the others.  Tie: the three real emitters
    vs the model's blocks under the same flags.  Oracle (implementation only): the switched-off emitter wrote nothing
    and the others wrote what they write with all flags on."""
    drv = common.Driver("drv_enum")
    cases = []
    for scope in SCOPES:
        for decl in WRAP_FLAG_DECLS:
            for li, lang in enumerate(("c", "fortran", "python")):
                for off_on in (("enum", "class") if scope == "cls" else ("enum",)):
                    cases.append((scope, decl, li, lang, off_on))
    reqs, reals = [], []
    nfail = 0
    for scope, decl, li, lang, off_on in cases:
        try:
            parent, node = build_real(scope, decl, off=lang, off_on=off_on)
            got = emit_blocks(node)
            parent0, node0 = build_real(scope, decl)
            allon = emit_blocks(node0)
        except (Exception, SystemExit) as ex:  # noqa
            ctx.tie_broken("wrap-flag-emitters", "%s | %s off=%s: %s: %s" % (scope, decl, lang, type(ex).__name__, ex))
            return
        ctx.count(1)
        flags = "".join("0" if i == li else "1" for i in range(3))
        reqs.append(block_request_for(parent, node, flags))
        reals.append((scope, decl, lang, off_on, got))
        expect = tuple([] if i == li else allon[i] for i in range(3))
        if tuple(got) != expect and nfail < MAX_FAILS:
            nfail += 1
            what = ("`%s` (scope %s) with wrap_%s: false on the %s: the %s emitter wrote %r" % (decl, scope, lang, off_on, lang, got[li])
                    if got[li] else
                    "`%s` (scope %s) with wrap_%s: false on the %s changed another language's output" % (decl, scope, lang, off_on))
            ctx.fail("wrap-flag:%s:%s:%s | %s" % (lang, off_on, scope, decl), what,
                     {"scope": scope, "decl": decl, "off": lang, "off_on": off_on})
    bad = []
    if drv.available():
        for (scope, decl, lang, off_on, got), ans in zip(reals, drv.run(reqs)):
            p = ans.split(" ")
            if p[0] != "ok" or len(p) < 6:
                bad.append({"scope": scope, "decl": decl, "off": lang, "model": ans[:200]})
                continue
            model = (common.decs(p[1]), common.decs(p[2]), common.decs(p[3]))
            if model != tuple(got):
                bad.append({"scope": scope, "decl": decl, "off": lang, "on": off_on, "impl": list(got), "model": list(model)})
    else:
        bad.append("driver not built")
    if bad:
        ctx.tie_broken("wrap-flag-blocks", bad[:4])
    ctx.note("wrap_flags", {"cases": len(cases), "tie_disagreements": len(bad), "oracle_failures": nfail})


# ====================================================================== (D) range: the assumption "values fit int"
RANGE_TABLE = [
    "enum E { A = 2147483647, B }",
    "enum E { A = 2147483648 }",
    "enum E { A = 4294967295 }",
    "enum E { A = 4294967296 }",
    "enum E { A = -2147483648 }",
    "enum E { A = -2147483647 - 1, B }",
    "enum E { A = 2147483647, B = A - 1, C }",
    "enum E { A = 65536, B = A * 65536 / 2 }",
    "enum E { A = 2147483647, B = A / 1 + 0, C }",
    "enum E { A = 017777777777, B }",
    "enum E { A = 1000000 * 1000 }",
    "enum E { A = 9223372036854775807 }",
    "enum class E { A = 2147483648 }",
    "enum class E { A = 2147483647, B = A - 2147483647 - 1 }",
]


def range_oracle(ctx, d):
    r = common.rng("c11-range")
    k = r.randrange(0, 3)
    decls = list(RANGE_TABLE) + [
        "enum E { A = %d, B, C, D }" % (2147483647 - k),
        "enum E { A = -2147483647 - 1 + %d, B = A - %d }" % (k, k),
        "enum E { A = 46340 * %d }" % (46340 + r.randrange(0, 3)),
        "enum E { A = %d, B = -A - 1, C = B + %d }" % (2147483647, k),
    ]
    items, outcome = [], {}
    for j, decl in enumerate(decls):
        it = make_item(910000 + j, SCOPES[j % 3], decl, "range")
        why = real_side(it)
        if why is not None and why[0] == "crash":
            outcome[decl] = {"shroud": "diagnostic: " + why[1][:160]}
            continue
        items.append(it)
    res = compile_batch(items, d) if items else {}
    for it in items:
        rr = res[it["idx"]]
        if not isinstance(rr["cxx"], list):
            outcome[it["decl"]] = {"cxx": "original rejected by g++: " + " ".join(rr["cxx"].split())[:140]}
            continue
        cl = classify(it, rr)
        outcome[it["decl"]] = dict(cl, cxx=rr["cxx"], scope=it["scope"])
        for lang in ("c", "f", "py"):
            if cl.get(lang, "").startswith("SILENT-WRONG"):
                ctx.fail("range:%s:%s" % (LANGKEY[lang], it["decl"]),
                         "`%s` (scope %s): values outside int: the generated %s compiles without a diagnostic to other values: %s (g++: %s); emitted: %s"
                         % (it["decl"], it["scope"], LANGNAME[lang], rr[lang], rr["cxx"], " / ".join(l.strip() for l in emitted_of(it, lang))),
                         {"scope": it["scope"], "decl": it["decl"]})
    ctx.count(len(decls))
    ctx.note("range", outcome)


# ====================================================================== run
def run(ctx):
    thorough = ctx.tier == "thorough"
    if os.path.exists(PROPS_LEAN):
        ok = ctx.lean(MODULES, THEOREMS, extra_targets=("drv_enum",))
    else:
        ok = ctx.lean([], {}, extra_targets=("drv_enum",))
        ctx.note("props_module", "lean/ShroudVerif/Props/C11.lean not present: only drv_enum was built")
        if any(THEOREMS.values()):
            ctx.proof_broken("ShroudVerif.Props.C11", "module file missing")
    ctx.cov["trusted_base"] = [
        "Lean 4.33.0 kernel; axioms within {propext, Classical.choice, Quot.sound}",
        "hand-written model Model/Enum.lean (PrintNode, PrintNodeIdentifier, int_literal, EnumNode value loops, the items "
        "wrapc/wrapf/wrapp.wrap_enum append and their write_lines rendering into the header / module blocks), tied by differential "
        "correspondence on generated enumerations: member fields, whole blocks, Python items, blocks of the generated files",
        "the model's reading of C / Fortran constant expressions and blocks (evalHeaderC, evalModuleF, evalBlockC, evalBlockF) and of "
        "the C++ original (cxxEnum), compared with gcc -std=c99 / gfortran -std=f2008 / g++ -std=c++11 on the oracle batches and with "
        "an independent Python evaluator on every generated enumeration; the block readers also run on the real rendered text and on "
        "the blocks cut out of generated files",
        "g++, gcc, gfortran 12 and CPython 3.12 as the meaning of 'value in C++ / C / Fortran / Python'",
        "the Python value is the C++ enumerator itself compiled by g++ inside a CPython extension (no model of the Python side beyond "
        "the exact item strings)",
    ]
    ctx.cov["rule"] = ("corpus + seeded grammar-directed enumerations (expr := term (addop term)*, term := unary (mulop unary)*, "
                       "unary := sign* primary, primary := literal | earlier member | (expr); decimal and octal literals; implicit "
                       "and explicit members; unscoped / class / struct; library, namespace and class scope), parsed by the real "
                       "parser. One evaluation = one enumeration through EnumNode + the three emitters + the model (member request, "
                       "block request, block readers on the real text). Non-trivial = an enumeration with a member on the text path "
                       "(value not an integer literal), a sign directly after an operator, or an octal literal; distinct = distinct "
                       "driver requests. Oracles on the implementation only: Python evaluation of every emitted C/Fortran text; "
                       "batches through g++ / gcc / gfortran / a CPython extension built from the emitted Python lines; a fixed "
                       "grammar-boundary table (C++ initialisers outside + - * /: rejected with a parse error or emitted correctly) at "
                       "the three scopes through add_enum and the whole program; a range table around INT_MAX / INT_MIN (per language: "
                       "correct, diagnostic or silently wrong).")
    ctx.assumptions += [
        "values and intermediate results fit the underlying type (int); outside it the range oracle records per language whether the "
        "result is correct, a compiler diagnostic or silently wrong (note 'range')",
        "member names are distinct identifiers, also case-insensitively (Fortran)",
        "the expression tree is taken from the real parser (C09 covers the parser); initialisers outside the + - * / grammar are "
        "rejected with a parse error (grammar-boundary table) except real literals, calls and unknown names, which are copied and "
        "diagnosed by the C / Fortran compiler (note 'grammar_boundary')",
        "the theorems are about the Lean model; the model is validated against the code on the generated enumerations only",
        "member names do not start with an underscore and no generated line exceeds the Fortran line limit (C13)",
        "Python constants are added under the bare member name: equal member names of two enumerations in one module collide "
        "(note 'python_name_collision'); values, not names, are the subject of C11",
    ]

    r = common.rng("c11")
    size, depth = (10, 5) if thorough else (6, 3)
    ngen = 12000 if thorough else 1500
    nbatch, bsize = (25, 40) if thorough else (3, 40)

    items = []
    for scope, decl in read_corpus():
        items.append(make_item(len(items), scope, decl, "corpus"))
    ncorpus = len(items)
    for _ in range(ngen):
        scope, decl = gen_enum(r, size, depth)
        items.append(make_item(len(items), scope, decl, "gen"))

    # ------------------------------------------------ real side
    crashes, enc_bad, live = [], [], []
    for it in items:
        if not isinstance(it["ref"], list):
            # corpus line outside the grammar / undefined in C++: nothing to compare against
            it["dead"] = "reference undefined: %s" % it["ref"]
            continue
        why = real_side(it)
        if why is None:
            live.append(it)
        elif why[0] == "crash":
            crashes.append({"scope": it["scope"], "decl": it["decl"], "error": why[1]})
            if len(crashes) <= MAX_FAILS:
                ctx.fail("crash:" + why[1].split(":")[0].replace("emit ", ""),
                         "EnumNode / wrap_enum raised %s on `%s` (scope %s)" % (why[1], it["decl"], it["scope"]),
                         {"scope": it["scope"], "decl": it["decl"]})
        else:
            enc_bad.append({"scope": it["scope"], "decl": it["decl"], "error": why[1]})
    ctx.count(len(items))
    if crashes:
        ctx.tie_broken("real-crash", crashes[:5])
    if enc_bad:
        ctx.tie_broken("wf", enc_bad[:5])
    ctx.note("emitter_lines_from", _EMIT_MODE["mode"])

    # ------------------------------------------------ model side + correspondence
    suspects = {}      # idx -> reason (go to the compiler oracle)
    drv = common.Driver("drv_enum")
    have_model = drv.available() and ok
    if have_model:
        answers = drv.run([it["request"] for it in live])
        dis, wfbad, refbad, evc, evf, proto = [], [], [], [], [], []
        for it, a in zip(live, answers):
            m = parse_answer(a)
            if m is None:
                proto.append({"request": it["request"], "answer": a})
                continue
            it["model"] = m
            real = [(c[0], c[1], f[0], f[1]) for c, f in zip(it["c_lines"], it["f_lines"])]
            if real != m["members"]:
                k = next((j for j, (x, y) in enumerate(zip(real, m["members"])) if x != y), min(len(real), len(m["members"])))
                dis.append({"scope": it["scope"], "decl": it["decl"], "member_index": k,
                            "impl": real[k] if k < len(real) else None,
                            "model": m["members"][k] if k < len(m["members"]) else None})
                suspects.setdefault(it["idx"], "enum-correspondence")
            if not m["wf"]:
                wfbad.append({"scope": it["scope"], "decl": it["decl"], "request": it["request"]})
            if m["cxx"] != it["ref"]:
                refbad.append({"scope": it["scope"], "decl": it["decl"], "model_cxx": m["cxx"], "reference": it["ref"]})
                suspects.setdefault(it["idx"], "cxx-reference")
            if m["evalC"] != it["ref"]:
                evc.append({"scope": it["scope"], "decl": it["decl"], "model_evalC": m["evalC"], "reference": it["ref"],
                            "emitted": it["c_raw"]})
                suspects.setdefault(it["idx"], "evalC")
            if m["evalF"] != it["ref"]:
                evf.append({"scope": it["scope"], "decl": it["decl"], "model_evalF": m["evalF"], "reference": it["ref"],
                            "emitted": it["f_raw"]})
                suspects.setdefault(it["idx"], "evalF")
        if proto:
            ctx.tie_broken("driver-protocol", proto[:5])
        if dis:
            ctx.tie_broken("enum-correspondence", dis[:5])
        if wfbad:
            ctx.tie_broken("wf", wfbad[:5])
        if refbad:
            ctx.tie_broken("cxx-reference", refbad[:5])
        if evc:
            ctx.tie_broken("evalC", evc[:5])
        if evf:
            ctx.tie_broken("evalF", evf[:5])
        ctx.note("disagreements", {"members": len(dis), "wf": len(wfbad), "cxx_reference": len(refbad),
                                   "evalC": len(evc), "evalF": len(evf)})
        block_tie(ctx, drv, live, suspects)
    else:
        ctx.tie_broken("enum-correspondence", "driver not built")

    # ------------------------------------------------ distribution / coverage
    intre = re.compile(r"^-?\d+$")
    dist = {"enums": len(items), "corpus": ncorpus, "members": 0, "explicit_int_members": 0, "text_path_members": 0,
            "implicit_after_int": 0, "implicit_after_text": 0, "first_implicit": 0, "first_explicit": 0,
            "octal": 0, "sign_after_op": 0, "nested_sign": 0, "paren": 0, "uses_member": 0, "negative_value": 0,
            "scoped": 0, "scope_lib": 0, "scope_ns": 0, "scope_cls": 0}
    nontrivial_items = []
    for it in live:
        text_members = 0
        for k, ((_cn, cv), (_fn, fv)) in enumerate(zip(it["c_lines"], it["f_lines"])):
            dist["members"] += 1
            if cv is None:
                if intre.match(fv):
                    dist["implicit_after_int"] += 1
                else:
                    dist["implicit_after_text"] += 1
            elif intre.match(cv):
                dist["explicit_int_members"] += 1
            else:
                dist["text_path_members"] += 1
                text_members += 1
            if k == 0:
                dist["first_implicit" if cv is None else "first_explicit"] += 1
        for f in ("octal", "sign_after_op", "nested_sign", "paren", "uses_member"):
            if f in it["feats"]:
                dist[f] += 1
        if any(v < 0 for v in it["ref"]):
            dist["negative_value"] += 1
        if it["scoped"]:
            dist["scoped"] += 1
        dist["scope_" + it["scope"]] += 1
        if text_members or "sign_after_op" in it["feats"] or "octal" in it["feats"]:
            ctx.nontrivial(it["request"])
            nontrivial_items.append(it)
    ctx.note("distribution", dist)
    for it in live[:ncorpus][:4] + live[ncorpus::max(1, len(live) // 6)][:6]:
        ctx.sample({"scope": it["scope"], "decl": it["decl"], "c": it["c_raw"], "fortran": [l.split(":: ", 1)[1] for l in it["f_raw"]],
                    "values": it["ref"]})

    # ------------------------------------------------ oracle 1: Python evaluation of the emitted texts (all enums)
    fails = []
    py_bad = 0
    for it in live:
        for lang, got in (("c", try_values(enum_values_c, it["c_lines"])), ("f", try_values(module_values_f, it["f_lines"]))):
            if got != it["ref"]:
                py_bad += 1
                suspects.setdefault(it["idx"], "py-" + lang)
                if len(fails) < MAX_FAILS:
                    raw = it["c_raw"] if lang == "c" else it["f_raw"]
                    if isinstance(got, list):
                        k = next(j for j, (x, y) in enumerate(zip(got, it["ref"])) if x != y)
                        detail = "member %s is %d in C++ but %d in the generated %s: %s" % (
                            it["members"][k][0], it["ref"][k], got[k], LANGNAME[lang], raw[k].strip())
                    else:
                        detail = "C++ values %s but the generated %s text has no value (%s): %s" % (
                            it["ref"], LANGNAME[lang], got, " / ".join(l.strip() for l in raw))
                    if ctx.fail("value-mismatch:py:%s:%s" % (lang, where(it)),
                                "`%s` (scope %s): %s" % (it["decl"], it["scope"], detail),
                                {"scope": it["scope"], "decl": it["decl"]}):
                        fails.append(it["idx"])
    ctx.count(2 * len(live))
    ctx.note("python_oracle", {"enums": len(live), "mismatches": py_bad})

    # ------------------------------------------------ oracle 2: compilers (+ whole program on the same enums)
    chosen = [it for it in live if it["origin"] == "corpus"]
    want = nbatch * bsize
    pool_nt = [it for it in nontrivial_items if it["origin"] != "corpus"]
    nt_ids = {it["idx"] for it in nontrivial_items}
    pool_rest = [it for it in live if it["origin"] != "corpus" and it["idx"] not in nt_ids]
    r2 = common.rng("c11-oracle")
    room = max(0, want - len(chosen))
    pick_nt = r2.sample(pool_nt, min(len(pool_nt), (room * 3) // 4))
    ids = {it["idx"] for it in chosen} | {it["idx"] for it in pick_nt}
    rest = [it for it in pool_rest if it["idx"] not in ids]
    pick_rest = r2.sample(rest, min(len(rest), room - len(pick_nt)))
    chosen += pick_nt + pick_rest
    ids = {it["idx"] for it in chosen}
    extra = [it for it in live if it["idx"] in suspects and it["idx"] not in ids][:200]
    chosen += extra
    chosen.sort(key=lambda it: it["idx"])
    wp_set = {it["idx"] for it in chosen} | {it["idx"] for it in live[::10]}

    d = common.scratch()
    try:
        # whole program: generated header / module carry the same member lines
        wp_bad, wp_n, fb_bad = [], 0, []
        for it in live:
            if it["idx"] not in wp_set:
                continue
            wp_n += 1
            got = whole_program(it, d)
            if isinstance(got, str):
                wp_bad.append({"scope": it["scope"], "decl": it["decl"], "error": got})
                if "raised" in got and len(fails) < MAX_FAILS:
                    if ctx.fail("crash:whole-program:" + where(it), "shroud on a YAML with `%s` (scope %s): %s" % (it["decl"], it["scope"], got),
                                {"scope": it["scope"], "decl": it["decl"]}):
                        fails.append(it["idx"])
                continue
            c_found, f_found = got["c_members"], got["f_members"]
            if [parse_c_member(l) for l in c_found] != it["c_lines"] or [parse_f_member(l) for l in f_found] != it["f_lines"]:
                wp_bad.append({"scope": it["scope"], "decl": it["decl"], "files_c": c_found, "files_f": f_found,
                               "direct_c": it["c_raw"], "direct_f": it["f_raw"]})
            # the blocks in the generated files: against the direct rendering and against the model's blocks
            it["file_blocks"] = {"c": got["c_block"], "f": got["f_block"]}
            for part, key in (("c", "c_block"), ("f", "f_block")):
                for what, other in (("direct write_lines rendering", it.get(key)), ("model", it.get("model_blocks", {}).get(part))):
                    if other is not None and other != got[key]:
                        fb_bad.append(dict(first_diff(got[key], other), scope=it["scope"], decl=it["decl"],
                                           part="%s block in the generated file vs %s" % (part, what)))
                        suspects.setdefault(it["idx"], "block-correspondence")
        ctx.count(wp_n)
        if wp_bad:
            ctx.tie_broken("emit-vs-fmtmembers", wp_bad[:5])
        if fb_bad:
            ctx.tie_broken("block-correspondence", fb_bad[:6])
        # the model's block reader on the text of the generated files
        fb_items = [it for it in live if "file_blocks" in it]
        rd_bad = []
        if have_model and fb_items:
            reqs = []
            for it in fb_items:
                reqs += ["evbc " + encl(it["file_blocks"]["c"]), "evbf " + encl(it["file_blocks"]["f"])]
            ans = drv.run(reqs)
            for j, it in enumerate(fb_items):
                for a, name, part in ((ans[2 * j], "evalBlockC", "c"), (ans[2 * j + 1], "evalBlockF", "f")):
                    vals = parse_vals(a[3:]) if a.startswith("ok ") else "bad answer " + a
                    if vals != it["ref"]:
                        rd_bad.append((name, {"scope": it["scope"], "decl": it["decl"], "what": "block reader on the generated file",
                                              "values": vals, "reference": it["ref"], "lines": it["file_blocks"][part]}))
                        suspects.setdefault(it["idx"], "evalBlock")
            for name in ("evalBlockC", "evalBlockF"):
                sel = [x[1] for x in rd_bad if x[0] == name]
                if sel:
                    ctx.tie_broken(name, sel[:5])
            ctx.count(len(reqs))
        ctx.note("whole_program", {"enums": wp_n, "differences": len(wp_bad), "file_block_differences": len(fb_bad),
                                   "file_blocks_read_by_model": len(fb_items), "file_block_reader_mismatches": len(rd_bad)})
        chosen += [it for it in live if it["idx"] in suspects and it["idx"] not in {c["idx"] for c in chosen}][:100]

        stats = {"enums": 0, "batches": 0, "ok": 0, "bad": 0, "cxx_original_rejected": 0, "rejected_decls": [],
                 "suspects_added": len(extra), "compilers": "g++ -std=c++11 / gcc -std=c99 / gfortran " + " ".join(FFLAGS) +
                 " / g++ -shared CPython extension with the emitted Python lines"}
        pyext = {"enums": 0, "values_equal_g++": 0, "compile_or_import_errors": 0, "value_mismatches": 0}
        evbad, validated, cfails = [], 0, []
        for b in range(0, len(chosen), bsize):
            batch = chosen[b:b + bsize]
            res = compile_batch(batch, d)
            stats["batches"] += 1
            for it in batch:
                rr = res[it["idx"]]
                it["compiled"] = rr
                stats["enums"] += 1
                v = judge_compiled(ctx, it, rr, cfails)
                if v == "skipped":
                    stats["cxx_original_rejected"] += 1
                    if len(stats["rejected_decls"]) < 5:
                        stats["rejected_decls"].append({"decl": it["decl"], "error": rr["cxx"]})
                    continue
                stats[v] += 1
                pyext["enums"] += 1
                if not isinstance(rr.get("py"), list):
                    pyext["compile_or_import_errors"] += 1
                elif rr["py"] == rr["cxx"]:
                    pyext["values_equal_g++"] += 1
                else:
                    pyext["value_mismatches"] += 1
                # the same results validate the reference semantics used on the model side
                if rr["cxx"] != it["ref"]:
                    evbad.append({"decl": it["decl"], "what": "python reference vs g++", "reference": it["ref"], "g++": rr["cxx"]})
                m = it.get("model")
                if m is not None and suspects.get(it["idx"]) != "enum-correspondence":
                    # (when the member texts already differ the model evaluated another text)
                    agree = True
                    for key, lang in (("cxx", "cxx"), ("evalC", "c"), ("evalF", "f")):
                        comp = rr[lang] if isinstance(rr[lang], list) else None
                        if m[key] != comp:
                            agree = False
                            evbad.append({"decl": it["decl"], "what": "model %s vs %s" % (key, {"cxx": "g++", "c": "gcc", "f": "gfortran"}[lang]),
                                          "model": m[key], "compiler": rr[lang],
                                          "emitted": it["c_raw"] if lang == "c" else it["f_raw"] if lang == "f" else None})
                    if agree:
                        validated += 1
        ctx.count(stats["enums"])
        if evbad:
            ctx.tie_broken("evaluator-vs-compiler", evbad[:6])
        stats["evaluator_vs_compiler_mismatches"] = len(evbad)
        stats["validates"] = "cxxEnum/evalHeaderC/evalModuleF agree with g++/gcc/gfortran on %d enums" % validated
        ctx.note("oracle", stats)
        ctx.note("python_oracle_ext", pyext)
        ctx.note("python_name_collision", python_name_collision(d))
        boundary_oracle(ctx, d)
        empty_enum_observation(ctx, d)
        wrap_flag_tie(ctx)
        range_oracle(ctx, d)
    finally:
        common.rmtree(d)


# ====================================================================== replay
def replay(path):
    data = json.load(open(path))
    entries = [f["replay"] for f in data.get("failing", []) if isinstance(f.get("replay"), dict) and "decl" in f["replay"]]
    if not entries:
        print("no failing input recorded in", path)
        for b in data.get("no_longer_checks", []):
            print(" broken:", b.get("kind"), b.get("name"))
            print("   ", json.dumps(b.get("detail"), default=str)[:1500])
        return 0
    seen = set()
    d = common.scratch()
    try:
        for n, rp in enumerate(entries):
            key = (rp["scope"], rp["decl"])
            if key in seen:
                continue
            seen.add(key)
            print("=== %s | %s" % key)
            try:
                it = make_item(n, rp["scope"], rp["decl"], "replay")
            except ValueError as e:
                print("  cannot read declaration:", e)
                continue
            if rp.get("prelude"):
                it["prelude"] = rp["prelude"]
            if rp.get("cxxstd"):
                it["cxxstd"] = rp["cxxstd"]
            print("  reference (C++ semantics):", it["ref"])
            why = real_side(it)
            if why is not None:
                print("  real code:", why)
                if "c_raw" not in it:
                    continue
            print("  emitted C:")
            for l in c_header_text(it).rstrip("\n").split("\n"):
                print("    " + l)
            print("  emitted Fortran:")
            for l in it["f_raw"]:
                print("    " + l)
            print("  emitted Python:")
            for l in it.get("py_lines", []):
                print("    " + l)
            print("  python evaluation  C:", try_values(enum_values_c, it["c_lines"]), " Fortran:", try_values(module_values_f, it["f_lines"]))
            res = compile_batch([it], d)[it["idx"]]
            print("  g++      :", res["cxx"])
            print("  gcc      :", res["c"])
            print("  gfortran :", res["f"])
            print("  python   :", res["py"])
            if isinstance(res["cxx"], list):
                for lang in ("c", "f", "py"):
                    if res[lang] != res["cxx"]:
                        print("  -> %s differs from the C++ original" % LANGNAME[lang])
                if all(res[lang] == res["cxx"] for lang in ("c", "f", "py")):
                    print("  -> all agree")
    finally:
        common.rmtree(d)
    return 0
