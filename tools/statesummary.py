"""Print the final-state table for DESIGN.md 9.12 from evidence/, known_findings.json, seeded/ and /repo."""
import glob
import json
import os
import subprocess

V = os.path.dirname(os.path.dirname(os.path.abspath(__file__)))
kf = json.load(open(os.path.join(V, "known_findings.json")))["findings"]
first = json.load(open(os.path.join(V, "seeded", "first_run.json")))
print("| property | obligations (all discharged) | evaluations in the quick run | seeded changes (detected now, or neutralised by a later fix / all) | fixes in /repo | open findings |")
print("|---|---|---|---|---|---|")
tot = [0, 0, 0, 0, 0]
for i in range(1, 19):
    p = "C%02d" % i
    e = json.load(open(os.path.join(V, "evidence", p + ".json")))
    c = e["coverage"]
    seeds = sorted(glob.glob(os.path.join(V, "seeded", p + "-*")))
    det = 0
    for d in seeds:
        try:
            r = json.load(open(os.path.join(d, "result.json")))
        except Exception:
            continue
        ok = r.get("demo_with_patch_rc") == 0 and all(ch.get("rc") == 0 for ch in r.get("checks", {}).values())   # neutralised by a later fix
        for q, ch in r.get("checks", {}).items():
            v = [l for l in ch.get("lines", []) if l.startswith("VIOLATION")]
            if v and not any("no-failing-input-found" in l for l in v):
                ok = True
        det += ok
    fx = len([f for f in kf if f["property"] == p and f["status"] == "fixed"])
    op = len([f for f in kf if f["property"] == p and f["status"] == "open"])
    print("| %s | %d | %d | %d / %d | %d | %d |" % (p, c.get("obligations", 0), c.get("evaluations", 0), det, len(seeds), fx, op))
    for k, v in enumerate((c.get("obligations", 0), det, len(seeds), fx, op)):
        tot[k] += v
print("| total | %d | | %d / %d | %d entries | %d |" % (tot[0], tot[1], tot[2], tot[3], tot[4]))
n = subprocess.check_output(["git", "-C", "/repo", "rev-list", "--count", "HEAD"], text=True).strip()
print("\n/repo: %s commits (1 snapshot + %d `fix:`)." % (n, int(n) - 1))
print("\nOpen findings:")
for f in kf:
    if f["status"] == "open":
        print("* %s `%s` - %s" % (f["property"], (f.get("key") or f.get("key_prefix")), f["what"][:220].replace("\n", " ")))
