"""Re-run tools.seedtest on every seeded/<P>-* directory of the given properties (serially per property) and print
one line per directory.  usage: python3 tools/seedrerun.py C07 C13 ..."""
import glob
import json
import os
import subprocess
import sys

VERIF = os.path.dirname(os.path.dirname(os.path.abspath(__file__)))


def main():
    bad = 0
    for pid in sys.argv[1:]:
        for d in sorted(glob.glob(os.path.join(VERIF, "seeded", pid + "-*"))):
            subprocess.call(["/venv/bin/python", "-m", "tools.seedtest", d, "--props", pid], cwd=VERIF,
                            env=dict(os.environ, PYTHONPATH=VERIF), stdout=subprocess.DEVNULL, stderr=subprocess.DEVNULL)
            r = json.load(open(os.path.join(d, "result.json")))
            c = r.get("checks", {}).get(pid, {})
            lines = c.get("lines", [])
            viol = [l for l in lines if l.startswith("VIOLATION")]
            ok = bool(viol) and not any("no-failing-input-found" in l for l in viol) and r.get("demo_with_patch_rc") not in (0, None)
            bad += 0 if ok else 1
            print(os.path.basename(d), "applies" if r.get("patch_applies") else "DOES-NOT-APPLY", r.get("pinned_tests"),
                  "rc=%s" % c.get("rc"), "DETECTED" if ok else "NOT-DETECTED", (viol or lines[-1:])[0][:100] if (viol or lines) else "")
    print("not detected:", bad)


if __name__ == "__main__":
    main()
