/* Guard-byte driver for the C string helpers of Shroud (property C10).
 *
 * Compiled by tools/props/c10.py as C (gcc) and as C++ (g++) with
 *   -fsanitize=address,undefined -fsanitize-recover=address,undefined
 * together with "helpers.inc" (helper text extracted from the working tree of
 * Shroud: whelpers.CHelpers[...]) and "stmts.inc" (functions whose bodies are
 * statement lines of statements.fc_statements).
 *
 * Every buffer handed to a helper lives in an arena
 *      [GUARD bytes 0xA5][cap bytes][GUARD bytes 0xA5]
 * whose guards are poisoned for AddressSanitizer, so that a load or a store
 * one byte outside [0,cap) is reported.  Reports do not stop the process
 * (halt_on_error=0): __asan_on_error / __ubsan_on_report set a flag and the
 * case is answered "oob"; stores that land in the guards are harmless and are
 * detected a second time by checking the guard pattern.
 *
 * Line protocol: identical to lean/Driver/StrHelpers.lean.
 */
#include <stdio.h>
#include <stdlib.h>
#include <string.h>
#include <stddef.h>
#ifdef __cplusplus
#include <string>
#include <cstring>
#include <cstdlib>
#endif
#include <ISO_Fortran_binding.h>
#include <sanitizer/asan_interface.h>

static volatile int g_err;
static int g_dtor_calls;

#ifdef __cplusplus
extern "C" {
#endif
/* from sanitizer/allocator_interface.h (header not installed with gcc 12 here) */
size_t __sanitizer_get_current_allocated_bytes(void);
size_t __sanitizer_get_allocated_size(const volatile void *p);
void __asan_on_error(void) { g_err |= 1; }
void __ubsan_on_report(void) { g_err |= 4; }
#ifdef __cplusplus
}
#endif

#include "helpers.inc"

/* the library's destructor function: index 0 = storage owned by the library (nothing to do),
   1 = heap block owned by the wrapper, 2 = std::string created by the wrapper (`new std::string`).
   The release is REAL, so that a helper that touches the text after releasing it is caught by ASan. */
void DTOR_NAME(CAPSULE_T *cap)
{
    g_dtor_calls++;
    if (cap->idtor == 1) free(cap->addr);
#ifdef __cplusplus
    else if (cap->idtor == 2) delete (std::string *) cap->addr;
#endif
    cap->addr = NULL;
    cap->idtor = 0;
}

#include "stmts.inc"

#ifdef __cplusplus
/* the wrapped "library" of the probe (prb.hpp) and the generated wrappers of wrapprb.cpp */
static std::string g_wtext; static int g_wnull;
const std::string * getp() { return new std::string(g_wtext); }
const char * getc()
{
    if (g_wnull) return NULL;
    char *p = (char *) malloc(g_wtext.size() + 1);
    memcpy(p, g_wtext.data(), g_wtext.size()); p[g_wtext.size()] = 0;
    return p;
}
int order(std::string & a) { return (int) a.size(); }
extern "C" void PRB_getp_bufferify(char * SHF_rv, int NSHF_rv);
extern "C" void PRB_getc_bufferify(char * SHF_rv, int NSHF_rv);
#endif

#define GUARD 64
#define FILLB 0xA5
#define MAXB 64

typedef struct {
    unsigned char *base;
    char *p;
    size_t cap, total;
    int null;
} Box;

/* parse "N" | "-" | "1,2,3" */
static Box box_parse(const char *t)
{
    Box b;
    int vals[MAXB];
    size_t n = 0;
    b.null = 0; b.base = NULL; b.p = NULL; b.cap = 0; b.total = 0;
    if (strcmp(t, "N") == 0) { b.null = 1; return b; }
    if (strcmp(t, "-") != 0) {
        const char *q = t;
        while (*q) {
            vals[n++] = (int) strtol(q, (char **) &q, 10);
            if (*q == ',') q++;
            if (n >= MAXB) break;
        }
    }
    b.cap = n;
    b.total = GUARD + ((n + 7) / 8) * 8 + GUARD;
    b.base = (unsigned char *) malloc(b.total);
    memset(b.base, FILLB, b.total);
    b.p = (char *) b.base + GUARD;
    for (size_t i = 0; i < n; i++) b.p[i] = (char) vals[i];
    ASAN_POISON_MEMORY_REGION(b.base, GUARD);
    ASAN_POISON_MEMORY_REGION(b.p + n, b.total - GUARD - n);
    return b;
}

/* unpoison, check the guards, release */
static void box_done(Box *b)
{
    if (b->null) return;
    ASAN_UNPOISON_MEMORY_REGION(b->base, b->total);
    for (size_t i = 0; i < GUARD; i++)
        if (b->base[i] != FILLB) g_err |= 2;
    for (size_t i = GUARD + b->cap; i < b->total; i++)
        if (b->base[i] != FILLB) g_err |= 2;
}
static void box_free(Box *b) { if (!b->null) free(b->base); }

static void put_bytes(char *out, const unsigned char *p, size_t n, int heap)
{
    if (n == 0) { strcat(out, "-"); return; }
    for (size_t i = 0; i < n; i++) {
        char tmp[16];
        int v = p[i];
        if (heap && v == 0xbe) v = 256;   /* ASAN malloc_fill_byte: never written */
        sprintf(tmp, i ? ",%d" : "%d", v);
        strcat(out, tmp);
    }
}

static char out[8192];

static void finish(void)
{
    if (g_err) printf("oob\n"); else printf("%s\n", out);
    fflush(stdout);
}

int main(void)
{
    static char line[8192];
    while (fgets(line, sizeof line, stdin)) {
        char *tok[8];
        int nt = 0;
        for (char *t = strtok(line, " \n"); t && nt < 8; t = strtok(NULL, " \n")) tok[nt++] = t;
        if (nt == 0) continue;
        g_err = 0;
        out[0] = 0;
        size_t heap0 = __sanitizer_get_current_allocated_bytes();
        if (strcmp(tok[0], "lentrim") == 0 && nt == 3) {
            Box s = box_parse(tok[1]);
            int k = ShroudLenTrim(s.p, atoi(tok[2]));
            box_done(&s); box_free(&s);
            sprintf(out, "ok %d", k);
        } else if (strcmp(tok[0], "strcopy") == 0 && nt == 5) {
            Box d = box_parse(tok[1]);
            Box s = box_parse(tok[3]);
            ShroudStrCopy(d.p, atoi(tok[2]), s.null ? NULL : s.p, atoi(tok[4]));
            box_done(&d); box_done(&s);
            strcpy(out, "ok "); put_bytes(out, (unsigned char *) d.p, d.cap, 0);
            box_free(&d); box_free(&s);
        } else if (strcmp(tok[0], "blankfill") == 0 && nt == 3) {
            Box d = box_parse(tok[1]);
            ShroudStrBlankFill(d.p, atoi(tok[2]));
            box_done(&d);
            strcpy(out, "ok "); put_bytes(out, (unsigned char *) d.p, d.cap, 0);
            box_free(&d);
        } else if (strcmp(tok[0], "stralloc") == 0 && nt == 4) {
            Box s = box_parse(tok[1]);
            char *rv = ShroudStrAlloc(s.p, atoi(tok[2]), atoi(tok[3]));
            box_done(&s);
            size_t cap = __sanitizer_get_allocated_size(rv);
            strcpy(out, "ok "); put_bytes(out, (unsigned char *) rv, cap, 1);
            ShroudStrFree(rv);
            box_free(&s);
            sprintf(out + strlen(out), " live=%d", (int) (__sanitizer_get_current_allocated_bytes() != heap0));
        } else if (strcmp(tok[0], "strarray") == 0 && nt == 4) {
            Box s = box_parse(tok[1]);
            int n = atoi(tok[2]);
            char **rv = ShroudStrArrayAlloc(s.p, n, atoi(tok[3]));
            box_done(&s);
            strcpy(out, "ok ");
            if (n == 0) strcat(out, "~");
            for (int i = 0; i < n; i++) {
                if (i) strcat(out, ";");
                put_bytes(out, (unsigned char *) rv[i], __sanitizer_get_allocated_size(rv[i]), 1);
            }
            if (__sanitizer_get_allocated_size(rv) != sizeof(char *) * (size_t) n && n > 0) g_err |= 8;
            ShroudStrArrayFree(rv, n);
            box_free(&s);
            sprintf(out + strlen(out), " live=%d", (int) (__sanitizer_get_current_allocated_bytes() != heap0));
        } else if (strcmp(tok[0], "copystr") == 0 && nt == 5) {
            Box c = box_parse(tok[1]);
            Box d = box_parse(tok[3]);
            ARRAY_T ctx;
            memset(&ctx, 0, sizeof ctx);
            ctx.addr.ccharp = c.null ? NULL : c.p;
            ctx.elem_len = (size_t) atoi(tok[2]);
            g_dtor_calls = 0;
            COPY_STRING(&ctx, d.p, (size_t) atoi(tok[4]));
            if (g_dtor_calls != 1) g_err |= 16;
            box_done(&c); box_done(&d);
            strcpy(out, "ok "); put_bytes(out, (unsigned char *) d.p, d.cap, 0);
            box_free(&c); box_free(&d);
        } else if (strcmp(tok[0], "copystro") == 0 && nt == 5) {
            /* as copystr, but the text lives in a heap block owned by the capsule (idtor 1) */
            Box c = box_parse(tok[1]);
            Box d = box_parse(tok[3]);
            ARRAY_T ctx;
            char *blk = (char *) malloc(c.cap);
            memcpy(blk, c.p, c.cap);
            memset(&ctx, 0, sizeof ctx);
            ctx.cxx.addr = blk;
            ctx.cxx.idtor = 1;
            ctx.addr.ccharp = blk;
            ctx.elem_len = (size_t) atoi(tok[2]);
            g_dtor_calls = 0;
            COPY_STRING(&ctx, d.p, (size_t) atoi(tok[4]));
            if (g_dtor_calls != 1 || ctx.cxx.addr != NULL) g_err |= 16;
            box_done(&c); box_done(&d);
            strcpy(out, "ok "); put_bytes(out, (unsigned char *) d.p, d.cap, 0);
            box_free(&c); box_free(&d);
        } else if (strcmp(tok[0], "allocchar") == 0 && nt == 2) {
            /* statement lines of c_char_*_result_buf_allocatable, then the two
               Fortran statements allocate(len=elem_len) ; call copy_string */
            Box c = box_parse(tok[1]);
            ARRAY_T ctx;
            memset(&ctx, 0, sizeof ctx);
            stmt_allocchar(&ctx, c.null ? NULL : c.p);
            size_t n = ctx.elem_len;
            char *f = (char *) malloc(n);          /* character(len=n), allocatable */
            g_dtor_calls = 0;
            COPY_STRING(&ctx, f, n);
            if (g_dtor_calls != 1) g_err |= 16;
            box_done(&c);
            strcpy(out, "ok "); put_bytes(out, (unsigned char *) f, n, 1);
            free(f);
            box_free(&c);
        } else if (strcmp(tok[0], "charscalar") == 0 && nt == 4) {
            Box d = box_parse(tok[1]);
            stmt_charscalar(d.p, atoi(tok[2]), (char) atoi(tok[3]));
            box_done(&d);
            strcpy(out, "ok "); put_bytes(out, (unsigned char *) d.p, d.cap, 0);
            box_free(&d);
        }
        else if (strcmp(tok[0], "flow") == 0 && nt == 4) {
            /* statement lines of one fc_statements entry around a stub library call.
               tok[2]: the Fortran variable (capacity = len), tok[3]: text produced by the library */
            Box t = box_parse(tok[2]);
            Box s = box_parse(tok[3]);
            int L = (int) t.cap, trim = L, ns = (int) s.cap;
            char *sc = NULL;
            flow_fn fn = NULL;
            while (trim > 0 && t.p[trim - 1] == ' ') trim--;      /* Fortran len_trim */
            if (!s.null) { sc = (char *) malloc(ns + 1); memcpy(sc, s.p, ns); sc[ns] = 0; }
            for (int i = 0; g_flows[i].name; i++)
                if (strcmp(g_flows[i].name, tok[1]) == 0) fn = g_flows[i].fn;
            g_seen_n = -1;
            if (fn) {
                size_t h1 = __sanitizer_get_current_allocated_bytes();
                fn(t.p, trim, L, sc, ns);
                if (__sanitizer_get_current_allocated_bytes() != h1) g_err |= 64;
                box_done(&t); box_done(&s);
                strcpy(out, "ok seen=");
                if (g_seen_n < 0) strcat(out, "none"); else put_bytes(out, (unsigned char *) g_seen, g_seen_n, 0);
                strcat(out, " f=");
                put_bytes(out, (unsigned char *) t.p, t.cap, 0);
            } else {
                strcpy(out, "bad-op");
            }
            free(sc);
            box_free(&t); box_free(&s);
        }
        else if (strcmp(tok[0], "aflow") == 0 && nt == 3) {
            /* allocatable character result through a CFI descriptor (c_*_result_cfi_allocatable):
               tok[2] is the text returned by the library (N = NULL pointer) */
            Box s = box_parse(tok[2]);
            int ns = (int) s.cap;
            char *sc = NULL;
            aflow_fn fn = NULL;
            if (!s.null) { sc = (char *) malloc(ns + 1); memcpy(sc, s.p, ns); sc[ns] = 0; }
            for (int i = 0; g_aflows[i].name; i++)
                if (strcmp(g_aflows[i].name, tok[1]) == 0) fn = g_aflows[i].fn;
            if (fn) {
                CFI_SCALAR_DESC(cd, NULL, 0, CFI_attribute_allocatable)
                fn(cd, sc, ns);
                box_done(&s);
                if (cd->base_addr == NULL) {
                    strcpy(out, "ok f=unallocated");
                } else {
                    strcpy(out, "ok f=");
                    put_bytes(out, (unsigned char *) cd->base_addr, cd->elem_len, 1);
                    if (__sanitizer_get_allocated_size(cd->base_addr) < cd->elem_len) g_err |= 128;
                    free(cd->base_addr);
                }
            } else {
                strcpy(out, "bad-op");
            }
            free(sc);
            box_free(&s);
        }
#ifdef __cplusplus
        else if (strcmp(tok[0], "wflow") == 0 && nt == 4) {
            /* a whole C wrapper as generated by Shroud for the probe library (wrapprb.cpp, linked in):
               result copied into character(len=L) with a user `final:` clause that releases it */
            Box t = box_parse(tok[2]);
            Box c = box_parse(tok[3]);
            g_wnull = c.null;
            g_wtext.assign(c.null ? "" : c.p, c.cap);
            size_t h1 = __sanitizer_get_current_allocated_bytes();
            if (strcmp(tok[1], "string_ptr_result_final") == 0) PRB_getp_bufferify(t.p, (int) t.cap);
            else if (strcmp(tok[1], "char_ptr_result_final") == 0) PRB_getc_bufferify(t.p, (int) t.cap);
            else g_err |= 256;
            g_wtext.clear(); g_wtext.shrink_to_fit();
            if (__sanitizer_get_current_allocated_bytes() > h1) g_err |= 64;     /* the result was not released */
            box_done(&t); box_done(&c);
            strcpy(out, "ok seen=none f=");
            put_bytes(out, (unsigned char *) t.p, t.cap, 0);
            box_free(&t); box_free(&c);
        }
        else if (strcmp(tok[0], "oflow") == 0 && nt == 3) {
            /* owned allocatable result: statement lines of c_string_scalar_result_buf_allocatable
               (new std::string, ShroudStrToArray with a destructor index), then the Fortran side:
               allocate(character(len=elem_len)) ; call copy_string_and_free */
            Box c = box_parse(tok[2]);
            ARRAY_T ctx;
            memset(&ctx, 0, sizeof ctx);
            oflow_string_scalar_result_buf_allocatable(&ctx, c.p, (int) c.cap);
            size_t n = ctx.elem_len;
            char *f = (char *) malloc(n);
            g_dtor_calls = 0;
            COPY_STRING(&ctx, f, n);
            if (g_dtor_calls != 1 || ctx.cxx.addr != NULL) g_err |= 16;
            box_done(&c);
            strcpy(out, "ok f="); put_bytes(out, (unsigned char *) f, n, 1);
            free(f);
            box_free(&c);
        }
        else if (strcmp(tok[0], "vflow") == 0 && nt == 6) {
            /* vflow name <t> <size> <len> <s1;s2;..|~> : CHARACTER(len) t(size), library stores the strings */
            Box t = box_parse(tok[2]);
            long size = atol(tok[3]);
            int len = atoi(tok[4]);
            std::vector<std::string> outv;
            std::vector<Box> keep;
            if (strcmp(tok[5], "~") != 0) {
                char *save = NULL;
                static char copy[4096];
                strcpy(copy, tok[5]);
                for (char *q = strtok_r(copy, ";", &save); q; q = strtok_r(NULL, ";", &save)) {
                    Box e = box_parse(q);
                    outv.push_back(std::string(e.p, e.cap));
                    box_done(&e); box_free(&e);
                }
            }
            vflow_fn fn = NULL;
            for (int i = 0; g_vflows[i].name; i++)
                if (strcmp(g_vflows[i].name, tok[1]) == 0) fn = g_vflows[i].fn;
            g_vseen_set = 0; g_vseen.clear();
            if (fn) {
                fn(t.p, size, len, outv);
                box_done(&t);
                strcpy(out, "ok seen=");
                if (!g_vseen_set) strcat(out, "none");
                else if (g_vseen.empty()) strcat(out, "~");
                else for (size_t i = 0; i < g_vseen.size(); i++) {
                    if (i) strcat(out, ";");
                    put_bytes(out, (const unsigned char *) g_vseen[i].data(), g_vseen[i].size(), 0);
                }
                strcat(out, " f=");
                put_bytes(out, (unsigned char *) t.p, t.cap, 0);
            } else {
                strcpy(out, "bad-op");
            }
            box_free(&t);
        }
        else if ((strcmp(tok[0], "strtoarray") == 0 || strcmp(tok[0], "allocstring") == 0) && nt == 2) {
            Box c = box_parse(tok[1]);
            {
                /* std::string returned by value: created with `new`, owned by the capsule (idtor 2) */
                std::string *strp = new std::string(c.p, c.cap);
                ARRAY_T ctx;
                memset(&ctx, 0, sizeof ctx);
                ShroudStrToArray(&ctx, strp, tok[0][0] == 's' ? 0 : 2);
                if (tok[0][0] == 's') {
                    sprintf(out, "ok %s %d", ctx.addr.ccharp == NULL ? "null" : "ptr", (int) ctx.elem_len);
                    if (ctx.addr.ccharp != NULL && ctx.addr.ccharp != strp->data()) g_err |= 32;
                    delete strp;
                } else {
                    size_t n = ctx.elem_len;
                    char *f = (char *) malloc(n);
                    g_dtor_calls = 0;
                    COPY_STRING(&ctx, f, n);
                    if (g_dtor_calls != 1) g_err |= 16;
                    strcpy(out, "ok "); put_bytes(out, (unsigned char *) f, n, 1);
                    free(f);
                }
            }
            box_done(&c); box_free(&c);
        }
#endif
        else {
            strcpy(out, "bad-op");
        }
        finish();
    }
    return 0;
}
