"""Translator for C04: /repo working tree -> lean/ShroudVerif/Gen/Interop.lean  (all data Nat-encoded)

 (a) lookupPairs<lang>: for every combination (sgroup, spointer, intent, suffix, deref, cdesc, specialize)
     of the generated domain, the id of the statement entry reached by the path wrapc.wrap_function builds
     and by the path wrapf.wrap_function_interface builds (it inserts `deref`), both computed with the real
     statements.lookup_fc_stmts.  resultPairs<lang>: the same for function results, where wrapc asks for
     "ctor"/"dtor"/"c" paths and wrapf always for "result"; ids are ids of the entry's interface signature
     (buf_args, buf_extra, declarations, return type class).
 (b) typemapRows: one row per registered type: class/size of c_type, of the kind named by f_kind, of
     f_c_type and of f_type (LP64 tables of tools/interop_parse.py).  fcnptrTypemap: the typemap the real code
     creates for a typedef of a function pointer (struct members, arguments and results of that type).
 (c) structPairs: helper structs emitted for both sides (capsule_data, array_context, capsule of a wrapped
     class) parsed from the helper texts; helperIfaces: helper interfaces (copy_string, copy_array_*) paired with
     the C definition they bind to.
 (d) definesC / definesF: the two ShroudTypeDefines tables.
 (e) declRows: statement entries with buf_args containing arg_decl: their c_arg_decl / f_arg_decl templates;
     resultDeclRows: entries with f_result_decl.
An unparsable template or helper text raises (the check reports a machinery error / broken tie, never a silent skip).
"""
import os
import re

from tools import common
from tools import interop_parse as ip
from tools.extract_registry import write_if_changed

GEN = os.path.join(common.LEAN, "ShroudVerif", "Gen", "Interop.lean")

SPOINTERS = ["scalar", "*", "**", "&", "*&", "[]", "*[]"]
INTENTS = ["in", "out", "inout"]
SUFFIXES = ["", "buf", "cfi"]
DEREFS = [None, "allocatable", "pointer", "raw", "scalar"]
CDESCS = [None, "cdesc"]
SPECIALIZE = [[], ["native"], ["string"], ["shadow"]]

CB = {"int": 1, "float": 2, "complex": 3, "bool": 4, "char": 5, "void": 6, "struct": 7, "cdesc": 8, "funptr": 9}
FB = {"int": 1, "float": 2, "complex": 3, "bool": 4, "char": 5, "cptr": 6, "derived": 7, "assumedtype": 8,
      "procedure": 9, "funptr": 10}
SHAPE = {"scalar": 0, "array": 1, "desc": 2}


class TranslatorError(Exception):
    pass


def sgroups():
    from shroud import typemap
    s = {t.sgroup for t in typemap.shared_typedict.values()}
    s |= {"shadow", "struct"}
    return sorted(s)


def setup(lang):
    from shroud import statements, typemap
    typemap.initialize()
    statements.cf_tree.clear()
    statements.update_statements_for_language(lang)
    return statements


def c_entries(statements):
    """name -> Scope for every C statement entry of the tree"""
    out = {}

    def walk(t):
        for k, v in t.items():
            if k == "_stmts":
                out[v.name] = v
            elif isinstance(v, dict) and not k.startswith("_"):
                walk(v)
    walk(statements.cf_tree.get("c", {}))
    return out


# ------------------------------------------------------------------ (e) declaration templates
def parse_c_template(t):
    """c_arg_decl template -> ("argType", ptr) | ("fixed", cparam)"""
    s = t
    m = re.match(r"^\{(cxx_type|c_type)\}\s*(\**)\s*\{(cxx_var|c_var)\}$", s)
    if m:
        return ("argType", len(m.group(2)))
    s2 = re.sub(r"\{cfi_prefix\}", "", s)
    s2 = re.sub(r"\{(c_var|cxx_var)\}", "NAME", s2)
    if "{" in s2:
        raise TranslatorError("c_arg_decl template not understood: %r" % t)
    try:
        p = ip.parse_c_param(s2)
    except ip.ParseError as e:
        raise TranslatorError("c_arg_decl template %r: %s" % (t, e))
    if p is None or p["name"] != "NAME":
        raise TranslatorError("c_arg_decl template %r: no variable" % t)
    if p["base"][0] == "struct":
        raise TranslatorError("c_arg_decl template %r: unknown type" % t)
    return ("fixed", p)


def parse_f_template(t):
    """f_arg_decl / f_result_decl template -> ("fType", value) | ("fixed", dummy) | ("fixedDim", dummy: shape from {f_c_dimension})"""
    s = t.replace("{f_intent}", "IN")
    uses_ftype = "{f_type}" in s
    uses_dim = "{f_c_dimension}" in s
    s = s.replace("{f_type}", "integer(C_INT)").replace("{f_c_dimension}", "")
    s = re.sub(r"\{c_var\}", "NAME", s)
    if "{" in s:
        raise TranslatorError("f_arg_decl template not understood: %r" % t)
    try:
        ds = ip.parse_f_decl(s)
    except ip.ParseError as e:
        raise TranslatorError("f_arg_decl template %r: %s" % (t, e))
    if len(ds) != 1 or ds[0][0] != "name":
        raise TranslatorError("f_arg_decl template %r: expected one entity" % t)
    d = ds[0][1]
    if uses_dim and d["shape"] != "scalar":
        raise TranslatorError("f_arg_decl template %r: attribute/dimension besides {f_c_dimension}" % t)
    if uses_ftype:
        if not uses_dim:
            raise TranslatorError("f_arg_decl template %r: {f_type} without {f_c_dimension} is not modelled" % t)
        return ("fType", d["value"])
    if uses_dim:
        return ("fixedDim", d)
    return ("fixed", d)


def enc_c(p, structid=None):
    b = p["base"]
    ptr = p["ptr"] + (1 if p.get("array") else 0)
    if b[0] == "struct":
        return (CB["struct"], structid(b[1]) if structid else 0, ptr)
    return (CB[b[0]], b[1], ptr)


def enc_f(d, typeid=None):
    b = d["base"]
    if b[0] == "derived":
        n = typeid(b[1]) if typeid else 0
    elif b[0] == "procedure":
        n = 0
    else:
        n = b[1]
    return (FB[b[0]], n, 1 if d["value"] else 0, SHAPE[d["shape"]])


def enc_ct(t):
    if t[0] == "argType":
        return (0, 0, 0, t[1])
    return (1,) + enc_c(t[1])


def enc_ft(t):
    if t[0] == "fType":
        return (0, 0, 0, 1 if t[1] else 0, 0)
    if t[0] == "fixedDim":
        return (2,) + enc_f(t[1])
    return (1,) + enc_f(t[1])


def ret_class(s, typemap):
    """class of the C return type an entry forces (return_type), 0 none / 1 void / 2 pointer"""
    rt = s.return_type
    if not rt:
        return 0
    if rt == "void":
        return 1
    if rt.strip().endswith("*"):
        return 2
    raise TranslatorError("return_type %r of %s not understood" % (rt, s.name))


def signature(s, typemap):
    cd = tuple(enc_ct(parse_c_template(t)) for t in s.c_arg_decl) if "arg_decl" in list(s.buf_args) + list(s.buf_extra) else ()
    fd = tuple(enc_ft(parse_f_template(t)) for t in s.f_arg_decl) if "arg_decl" in list(s.buf_args) + list(s.buf_extra) else ()
    rd = tuple(enc_ft(parse_f_template(t)) for t in s.f_result_decl)
    return (tuple(s.buf_args), tuple(s.buf_extra), cd, fd, rd, ret_class(s, typemap))


# ------------------------------------------------------------------ (a)
def lookup_tables(lang):
    statements = setup(lang)
    from shroud import typemap
    ents = c_entries(statements)
    names = sorted(ents) + ["c_default"]
    eid = {n: i + 1 for i, n in enumerate(names)}
    pairs = []
    combos = []
    sg = sgroups()
    for g in sg:
        for sp in SPOINTERS:
            for it in INTENTS:
                for sx in SUFFIXES:
                    for dr in DEREFS:
                        for cd in CDESCS:
                            for spz in SPECIALIZE:
                                cpath = ["c", g, sp, it, sx, cd] + spz
                                fpath = ["c", g, sp, it, sx, dr, cd] + spz
                                a = statements.lookup_fc_stmts(cpath)
                                b = statements.lookup_fc_stmts(fpath)
                                pairs.append((eid[a.name], eid[b.name]))
                                if a.name != b.name:
                                    combos.append({"lang": lang, "sgroup": g, "spointer": sp, "intent": it, "suffix": sx,
                                                   "deref": dr, "cdesc": cd, "specialize": spz, "c_entry": a.name, "f_entry": b.name})
    # results: wrapc: subroutine -> ["c"] or ["c","shadow","dtor"]; function -> [.., "ctor"|"result", suffix]
    #          wrapf: always ["c", sgroup, spointer, "result", suffix]
    sigs, sigid = {}, {}

    def sid(s):
        k = signature(s, typemap)
        if k not in sigid:
            sigid[k] = len(sigid) + 1
        return sigid[k]
    rpairs = []
    for g in sg:
        for sp in SPOINTERS:
            for sx in SUFFIXES:
                for kind in ("result", "ctor"):
                    if kind == "ctor" and g != "shadow":
                        continue
                    a = statements.lookup_fc_stmts(["c", g, sp, kind, sx])
                    b = statements.lookup_fc_stmts(["c", g, sp, "result", sx])
                    rpairs.append((sid(a), sid(b)))
    for sx in SUFFIXES:
        # subroutines: the result type is void
        a = statements.lookup_fc_stmts(["c"])
        b = statements.lookup_fc_stmts(["c", "void", "scalar", "result", sx])
        rpairs.append((sid(a), sid(b)))
        a = statements.lookup_fc_stmts(["c", "shadow", "dtor"])
        ka = signature(a, typemap)
        if ka[-1] == 1:
            ka = ka[:-1] + (0,)      # "void" forced by the entry == void printed from the declaration
        if ka not in sigid:
            sigid[ka] = len(sigid) + 1
        rpairs.append((sigid[ka], sid(b)))
    # entries the Fortran result path can reach: a forced pointer return type needs return_cptr
    rrows = []
    for n in sorted(ents):
        if "result" in n.split("_"):
            e = ents[n]
            rrows.append((eid[n], ret_class(e, typemap), 1 if e.return_cptr else 0, 1 if e.f_result_decl else 0))
    # a function result that becomes an argument (bufferify / CFI clones of char and string functions):
    # wrapc uses the indirection of the ORIGINAL result (CXX_ast.get_indirect_stmt()), wrapf the indirection of the new
    # argument, which Declaration._as_arg makes a pointer when the result was a scalar: scalar vs *
    GCODE = {"char": 1, "string": 2, "vector": 3}
    rapairs = []
    for g in sg:
        for si, sx in enumerate(("buf", "cfi")):
            for di, dr in enumerate(DEREFS):
                a = statements.lookup_fc_stmts(["c", g, "scalar", "result", sx, dr])
                b = statements.lookup_fc_stmts(["c", g, "*", "result", sx, dr])
                rapairs.append((GCODE.get(g, 0), si, di, sid(a), sid(b)))
    # every C entry: what both builders read from it
    BUF = {"arg": 0, "shadow": 1, "arg_decl": 2, "size": 3, "capsule": 4, "context": 5, "len_trim": 6, "len": 7}
    erows = []
    for n in names:
        e = ents.get(n) or statements.default_scopes["c"]
        parts = n.split("_")
        erows.append((eid[n], [BUF.get(b, 99) for b in e.buf_args], [BUF.get(b, 99) for b in e.buf_extra],
                      ret_class(e, typemap), 1 if e.return_cptr else 0, len(e.f_result_decl), len(e.c_arg_decl), len(e.f_arg_decl),
                      1 if "ctor" in parts else (2 if "dtor" in parts else 0)))
    return names, pairs, rpairs, ents, rrows, combos, erows, rapairs


def c_name_code(t):
    """the variable a c_arg_decl template names: 1 {c_var}, 2 {cxx_var}, 0 anything else"""
    m = re.search(r"(\{\w+\}|\w+)\s*(\[[^\]]*\]\s*)*$", t.strip())
    return {"{c_var}": 1, "{cxx_var}": 2}.get(m.group(1) if m else "", 0)


def f_name_code(t):
    """the entity an f_arg_decl template declares: 1 exactly `{c_var}` (with an optional {f_c_dimension} / shape), 0 otherwise"""
    if "::" not in t:
        return 0
    ent = t.split("::", 1)[1].strip()
    return 1 if re.match(r"^\{c_var\}\s*(\{f_c_dimension\}|\([^)]*\))?$", ent) else 0


def decl_name_rows(ents):
    """for every entry that carries c_arg_decl / f_arg_decl lists (same order as decl_rows): the name codes of both lists"""
    rows = []
    for name in sorted(ents):
        s = ents[name]
        if "arg_decl" in list(s.buf_args) + list(s.buf_extra):
            rows.append((name, [c_name_code(t) for t in s.c_arg_decl], [f_name_code(t) for t in s.f_arg_decl]))
    return rows


def decl_rows(ents):
    rows, rrows = [], []
    for name in sorted(ents):
        s = ents[name]
        bufs = list(s.buf_args) + list(s.buf_extra)
        if "arg_decl" in bufs:
            cs = [parse_c_template(t) for t in s.c_arg_decl]
            fs = [parse_f_template(t) for t in s.f_arg_decl]
            rows.append((name, cs, fs))
        elif s.c_arg_decl or s.f_arg_decl:
            raise TranslatorError("%s carries c_arg_decl/f_arg_decl without buf_args arg_decl" % name)
        if s.f_result_decl:
            fs = [parse_f_template(t) for t in s.f_result_decl]
            # the C return type is printed from the declaration; the entry name tells its type group
            parts = name.split("_")
            rrows.append((name, parts[1], parts[2], fs))
    return rows, rrows


# ------------------------------------------------------------------ (b)
def typemap_rows():
    from shroud import typemap
    typemap.initialize()
    rows = []
    for name, t in typemap.shared_typedict.items():
        def ccls():
            if t.c_type is None:
                return (0, 0)
            p = ip.parse_c_param(t.c_type, want_name=False)
            if p["base"][0] == "struct":
                raise TranslatorError("typemap %s: c_type %r is not in the LP64 table" % (name, t.c_type))
            return (CB[p["base"][0]], p["base"][1])

        def fcls(txt):
            if txt is None:
                return (0, 0)
            base, desc = ip.parse_f_type(txt.replace("character(*)", "character(len=*)"))
            return (FB[base[0]], base[1] if base[0] not in ("derived", "procedure") else 0)

        def kcls():
            if t.f_kind is None:
                return (0, 0)
            k = t.f_kind.upper()
            if k not in ip.F_KINDS:
                raise TranslatorError("typemap %s: f_kind %r is not in the kind table" % (name, t.f_kind))
            c, n = ip.F_KINDS[k]
            return (FB[c], n)
        try:
            rows.append((name, ccls(), kcls(), fcls(t.f_c_type), fcls(t.f_type)))
        except ip.ParseError as e:
            raise TranslatorError("typemap %s: %s" % (name, e))
    return rows


def fcnptr_rows():
    """The typemap the real ast.add_declaration / typemap.create_fcnptr_typemap builds for `typedef ret (*name)(...)`,
    per language: (C class of c_type, Fortran class of `f_c_type or f_type`, f_module names C_FUNPTR).  A c_type that is
    not the typedef's own name, or an f_type that is no Fortran type, is class 0 (the table theorem then fails)."""
    import contextlib
    import io
    from shroud import ast, typemap
    rows = []
    for lang in ("c", "c++"):
        typemap.initialize()
        lib = ast.LibraryNode(library="probe", language=lang)
        with contextlib.redirect_stdout(io.StringIO()):
            node = lib.add_declaration("typedef int (*shroud_probe_fn)(int x, void (*g)(void));")
        t = node.typemap
        cc = (CB["funptr"], 0) if t.c_type == "shroud_probe_fn" else (0, 0)
        try:
            base, _ = ip.parse_f_type((t.f_c_type or t.f_type or "").replace("character(*)", "character(len=*)"))
            fc = (FB[base[0]], base[1] if base[0] not in ("derived", "procedure", "cptr", "funptr", "assumedtype") else 0)
        except (ip.ParseError, KeyError):
            fc = (0, 0)
        mod = t.f_c_module or t.f_module or {}
        rows.append((lang, cc, fc, 1 if "C_FUNPTR" in (mod.get("iso_c_binding") or []) else 0))
    typemap.initialize()
    return rows


# ------------------------------------------------------------------ (c), (d)
def clean_helper(text):
    out = []
    for ln in text.split("\n"):
        s = ln.rstrip()
        if s.endswith("+") and not s.endswith("++"):
            s = s[:-1]
        if s[:1] in "+-" and len(s) > 1 and s[1] != " ":
            s = s[1:]
        s = s.replace("\t", " ").replace("\r", "").replace("\f", " ")
        out.append(s)
    return "\n".join(out)


def helper_tables():
    from shroud import ast, typemap, whelpers, statements
    typemap.initialize()
    lib = ast.create_library_from_dictionary(dict(
        library="probe", language="c++",
        declarations=[dict(decl="class Cls1", declarations=[dict(decl="Cls1()")])]))
    whelpers.set_library(lib)
    statements.cf_tree.clear()
    statements.update_statements_for_language("c++")
    whelpers.add_all_helpers()
    cls = lib.classes[0]
    whelpers.add_shadow_helper(cls)
    fmt = lib.fmtdict
    ctext, ftext = [], []
    for name in sorted(whelpers.CHelpers):
        h = whelpers.CHelpers[name]
        if h.get("scope") == "cwrap_include" or name in ("copy_string", "copy_array"):
            for key in ("source", "cxx_source", "c_source"):
                if key in h:
                    ctext.append(clean_helper(h[key]))
    for name in sorted(whelpers.FHelpers):
        h = whelpers.FHelpers[name]
        for key in ("derived_type", "interface"):
            if key in h:
                ftext.append(clean_helper(h[key]))
    ctext = "\n".join(ctext)
    ftext = "module m\n" + "\n".join(ftext) + "\nend module m\n"
    _p, cstructs, cdefs = ip.parse_c_header(ctext)
    cprotos = ip.parse_c_defs(ctext)
    ifaces, ftypes, fparams = ip.parse_f_module(ftext)
    cap_c, ctx_c = fmt.C_capsule_data_type, fmt.C_array_type
    cap_f, ctx_f = fmt.F_capsule_data_type.lower(), fmt.F_array_type.lower()
    shadow_c = cls.typemap.c_type
    cids = {cap_c: 1, ctx_c: 2, shadow_c: 1}
    fids = {cap_f: 1, ctx_f: 2}

    def cid(n):
        if n not in cids:
            raise TranslatorError("helper text names an unknown C struct %r" % n)
        return cids[n]

    def fid(n):
        if n.lower() not in fids:
            raise TranslatorError("helper text names an unknown derived type %r" % n)
        return fids[n.lower()]

    spairs = []
    for label, cn, fn in (("capsule_data", cap_c, cap_f), ("array_context", ctx_c, ctx_f), ("shadow_capsule", shadow_c, cap_f)):
        cs, ft = cstructs.get(cn), ftypes.get(fn)
        if cs is None or isinstance(cs, dict):
            raise TranslatorError("C struct %s for %s not found/parsable in helper text: %r" % (cn, label, cs))
        if ft is None or ft["error"]:
            raise TranslatorError("derived type %s for %s not found/parsable: %r" % (fn, label, ft))
        cf = []
        for f in cs:
            alen = ip.dims_list(f["array"]) if f.get("array") else []
            if alen is None:
                raise TranslatorError("array extent of %s.%s" % (cn, f["name"]))
            b = f["base"]
            cf.append((CB[b[0]], cid(b[1]) if b[0] == "struct" else b[1], f["ptr"], alen))
        ff = []
        for nm, d in ft["fields"]:
            alen = ip.dims_list(d["extent"].split(",")) if d["shape"] == "array" else []
            if alen is None or d["shape"] == "desc" or d["value"]:
                raise TranslatorError("component %s%%%s is not a plain interoperable component" % (fn, nm))
            b = d["base"]
            ff.append((FB[b[0]], fid(b[1]) if b[0] == "derived" else b[1], alen))
        spairs.append((label, 1 if ft["bindc"] else 0, cf, ff))
    # helper interfaces bound to helper C functions
    hif = []
    for it in ifaces:
        if it["bind"] is None:
            continue
        pr = cprotos.get(it["bind"])
        if pr is None:
            if it["bind"] == fmt.C_memory_dtor_function:
                continue   # prototype is written by wrapc (types header); checked on generated output by the oracle
            raise TranslatorError("helper interface %s binds to %s which no helper defines" % (it["fname"], it["bind"]))
        if it["errors"]:
            raise TranslatorError("helper interface %s: %s" % (it["fname"], it["errors"]))
        cps = [enc_c(p, cid) for p in pr["params"]]
        fds = []
        for a in it["args"]:
            if a not in it["decls"]:
                raise TranslatorError("helper interface %s: dummy %s has no declaration" % (it["fname"], a))
            fds.append(enc_f(it["decls"][a], fid))
        hif.append((it["fname"], cps, fds))
    if not any(n.lower().endswith("copy_string_and_free") for n, _, _ in hif) or len(hif) < 10:
        raise TranslatorError("helper interfaces copy_string/copy_array not found (%d found)" % len(hif))
    # (d)
    cd = {k: v for k, v in cdefs.items() if k.startswith("SH_TYPE_")}
    fd = {k: v for k, v in fparams.items() if k.startswith("SH_TYPE_")}
    if not cd or not fd:
        raise TranslatorError("ShroudTypeDefines tables not found (C %d, Fortran %d)" % (len(cd), len(fd)))
    return spairs, hif, cd, fd


def enc_defines(tab, nameid):
    rows = []
    for k in tab:
        v = tab[k].strip()
        m = re.match(r"^(\d+)$", v)
        if m:
            rows.append((nameid(k), 0, int(v)))
            continue
        m = re.match(r"^(\w+)\s*\+\s*(\d+)$", v)
        if m:
            rows.append((nameid(k), nameid(m.group(1).upper()), int(m.group(2))))
            continue
        raise TranslatorError("ShroudTypeDefines value %r of %s not understood" % (v, k))
    return rows


# ------------------------------------------------------------------ (f) names under every format override
NAME_FIELDS = ["C_prefix", "C_memory_dtor_function", "C_array_type", "C_capsule_data_type", "F_array_type", "F_capsule_data_type",
               "F_capsule_type", "F_capsule_final_function", "F_capsule_delete_function", "C_bufferify_suffix", "C_cfi_suffix",
               "C_this", "F_C_prefix", "SH_shadow", "C_local", "CXX_local", "F_result", "F_result_capsule", "C_string_result_as_arg",
               "C_result", "F_this", "F_derived_member", "cfi_prefix", "c_temp", "F_pointer", "F_result_ptr"]


def probe_yaml():
    """A library that pulls in every helper pair (capsule destructor, copy_string, copy_array, array_context, class
    capsule) and whose user-settable name fields are all replaced by sentinels Qz<i>zQ: a name in its output IS its
    template over those fields."""
    import yaml
    fmt = {k: "Qz%dzQ" % i for i, k in enumerate(NAME_FIELDS)}
    d = dict(library="probe", language="c++", format=fmt, options=dict(wrap_python=False, wrap_lua=False),
             declarations=[
                 dict(decl="int *makeInts(int *len +intent(out)+hidden) +deref(pointer)+dimension(len)+owner(caller)"),
                 dict(decl="const std::string & getName() +deref(allocatable)"),
                 dict(decl="void fill(std::vector<int> &v +intent(out))"),
                 dict(decl="void vin(const std::vector<double> &v, std::vector<int> &io)"),
                 dict(decl="int sum(const int *a +rank(1), int n +implied(size(a)))"),
                 dict(decl="void name(const char *s, char *o +intent(out)+charlen(20))"),
                 dict(decl="class Cls", declarations=[dict(decl="Cls()"), dict(decl="~Cls()"), dict(decl="int get(int i)"),
                                                      dict(decl="Cls *self2()")]),
             ])
    return yaml.safe_dump(d, sort_keys=False)


def name_template(name, lit):
    """'Qz0zQShroudCopyArray' -> [1000, lit('ShroudCopyArray')]"""
    out = []
    for part in re.split(r"(Qz\d+zQ)", name):
        if not part:
            continue
        m = re.match(r"^Qz(\d+)zQ$", part)
        out.append(1000 + int(m.group(1)) if m else lit(part))
    return out


def probe_names():
    from tools import shroudrun
    text = probe_yaml()
    lits, rows_b, rows_d = {}, [], []

    def lit(t):
        if t not in lits:
            lits[t] = len(lits) + 1
            if lits[t] >= 1000:
                raise TranslatorError("too many literal name parts")
        return lits[t]
    seen_helpers = set()
    for cfi in (False, True):
        d = common.scratch()
        try:
            y = os.path.join(d, "probe.yaml")
            open(y, "w").write(text)
            out = os.path.join(d, "out")
            os.makedirs(out)
            cfg, exc, _o = shroudrun.run_inproc([y], out, options=["F_CFI=%s" % ("true" if cfi else "false")])
            if exc is not None:
                raise TranslatorError("Shroud rejects the probe library with overridden name fields: %r" % (exc,))
            defined, binds = set(), []
            for fn in sorted(os.listdir(out)):
                p = os.path.join(out, fn)
                if fn.endswith((".h", ".hh", ".hpp")):
                    pr, _st, _df = ip.parse_c_header(open(p).read())
                    defined.update(pr)
                elif fn.endswith((".c", ".cc", ".cpp")):
                    defined.update(ip.parse_c_defs(open(p).read()))
                elif fn.endswith((".f", ".F", ".f90")):
                    ifaces, _t, _p = ip.parse_f_module(open(p).read())
                    for it in ifaces:
                        if it["bind"] is not None:
                            binds.append((it["fname"], it["bind"]))
            for fname, b in binds:
                if "capsule_dtor" in fname or "copy_string" in fname or "copy_array" in fname:
                    seen_helpers.add(re.sub(r"^.*(capsule_dtor|copy_string|copy_array).*$", r"\1", fname))
                t = name_template(b, lit)
                if t not in rows_b:
                    rows_b.append(t)
            for n in sorted(defined):
                t = name_template(n, lit)
                if t not in rows_d:
                    rows_d.append(t)
        finally:
            common.rmtree(d)
    missing = {"capsule_dtor", "copy_array"} - seen_helpers
    if missing:
        raise TranslatorError("the probe library did not pull in the helper interface(s) %s" % sorted(missing))
    names = [None] * len(lits)
    for k, v in lits.items():
        names[v - 1] = k
    return rows_b, rows_d, names, text


# ------------------------------------------------------------------ render
def _lst(items, per=12, ind="  "):
    out, line = [], []
    for it in items:
        line.append(it)
        if len(line) == per:
            out.append(ind + ", ".join(line))
            line = []
    if line:
        out.append(ind + ", ".join(line))
    return ",\n".join(out)


def _tup(t):
    return "(" + ", ".join(str(x) for x in t) + ")"


def render(data):
    L = ["/- GENERATED by tools/extract_interop.py from the /repo working tree.  Do not edit. -/",
         "namespace Shroud.Gen.Interop", ""]
    for lang, key in (("C", "c"), ("Cxx", "c++")):
        names, pairs, rpairs, rrows, erows, rapairs = data["lookup"][key]
        L.append("/-- language %s: (entry id by the wrapc path, entry id by the wrapf interface path) for every combination;" % key)
        L.append("    order: sgroup %s x spointer %s x intent x suffix x deref x cdesc x specialize -/" % (data["sgroups"], SPOINTERS))
        chunks = [pairs[i:i + 2520] for i in range(0, len(pairs), 2520)]
        for ci, ch in enumerate(chunks):
            L.append("def lookupPairs%s%d : List (Nat × Nat) := [" % (lang, ci))
            L.append(_lst(["(%d,%d)" % p for p in ch], per=24))
            L.append("]")
        L.append("def lookupPairs%s : List (List (Nat × Nat)) := [%s]" % (lang, ", ".join("lookupPairs%s%d" % (lang, i) for i in range(len(chunks)))))
        L.append("def lookupCount%s : Nat := %d" % (lang, len(pairs)))
        L.append("/-- (interface-signature id by the wrapc result path, by the wrapf result path) -/")
        L.append("def resultPairs%s : List (Nat × Nat) := [" % lang)
        L.append(_lst(["(%d,%d)" % p for p in rpairs], per=24))
        L.append("]")
        L.append("/-- entries reachable by the Fortran result path: (entry id, forced return class 0 none 1 void 2 pointer, return_cptr, has f_result_decl) -/")
        L.append("def resultEntries%s : List (Nat × Nat × Nat × Nat) := [" % lang)
        L.append(_lst([_tup(x) for x in rrows], per=10))
        L.append("]")
        L.append("/-- result that becomes an argument: (type group 1 char 2 string 3 vector 0 other, suffix 0 buf 1 cfi, deref index")
        L.append("    (0 none 1 allocatable 2 pointer 3 raw 4 scalar), signature id by wrapc's path (scalar), by wrapf's path (*)) -/")
        L.append("def resultArgPairs%s : List (Nat × Nat × Nat × Nat × Nat) := [" % lang)
        L.append(_lst([_tup(x) for x in rapairs], per=10))
        L.append("]")
        L.append("/-- every C statement entry (and c_default): (entry id, buf_args codes, buf_extra codes, forced return class, return_cptr,")
        L.append("    number of f_result_decl, number of c_arg_decl, number of f_arg_decl, 1 ctor / 2 dtor / 0 other);")
        L.append("    buf codes 0 arg 1 shadow 2 arg_decl 3 size 4 capsule 5 context 6 len_trim 7 len, 99 unknown -/")
        L.append("def entryRows%s : List (Nat × List Nat × List Nat × Nat × Nat × Nat × Nat × Nat × Nat) := [" % lang)
        L.append(",\n".join("  (%d, %s, %s, %d, %d, %d, %d, %d, %d)" % (r[0], list(r[1]), list(r[2]), r[3], r[4], r[5], r[6], r[7], r[8]) for r in erows))
        L.append("]")
        L.append("def entryNames%s : List String := [" % lang)
        L.append(_lst(['"%s"' % n for n in names], per=6))
        L.append("]")
        L.append("")
    L.append("/-- (type id, (c class, bytes), (f_kind class, bytes), (f_c_type class, bytes), (f_type class, bytes));")
    L.append("    C class: 1 int 2 float 3 complex 4 bool 5 char 6 void 7 struct 8 cdesc 9 funptr; 0 = absent")
    L.append("    F class: 1 integer 2 real 3 complex 4 logical 5 character 6 C_PTR 7 derived 8 type(*) 9 procedure 10 C_FUNPTR -/")
    L.append("def typemapRows : List (Nat × (Nat × Nat) × (Nat × Nat) × (Nat × Nat) × (Nat × Nat)) := [")
    L.append(",\n".join("  (%d, %s, %s, %s, %s)" % (i + 1, _tup(r[1]), _tup(r[2]), _tup(r[3]), _tup(r[4])) for i, r in enumerate(data["typemap"])))
    L.append("]")
    L.append("def typemapNames : List String := [" + ", ".join('"%s"' % r[0] for r in data["typemap"]) + "]")
    L.append("")
    L.append("/-- the typemap created for `typedef ret (*name)(...)` (typemap.create_fcnptr_typemap), language c and c++:")
    L.append("    ((C class of c_type, n), (F class of f_c_type or f_type, n), 1 if f_module imports C_FUNPTR) -/")
    L.append("def fcnptrTypemap : List ((Nat × Nat) × (Nat × Nat) × Nat) := [" +
             ", ".join("(%s, %s, %d)" % (_tup(r[1]), _tup(r[2]), r[3]) for r in data["fcnptr"]) + "]")
    L.append("")
    L.append("/-- (bind(C) flag, C fields (class, bytes|struct id, pointer depth, extents in C order), Fortran components (class, bytes|type id, extents in Fortran order)) -/")
    L.append("def structPairs : List (Nat × List (Nat × Nat × Nat × List Nat) × List (Nat × Nat × List Nat)) := [")
    L.append(",\n".join("  (%d, [%s], [%s])" % (b, ", ".join(_tup(x) for x in cf), ", ".join(_tup(x) for x in ff))
                        for _n, b, cf, ff in data["structs"]))
    L.append("]")
    L.append("def structPairNames : List String := [" + ", ".join('"%s"' % r[0] for r in data["structs"]) + "]")
    L.append("")
    L.append("/-- helper interfaces: (C parameters (class, n, ptr), Fortran dummies (class, n, value, shape)) -/")
    L.append("def helperIfaces : List (List (Nat × Nat × Nat) × List (Nat × Nat × Nat × Nat)) := [")
    L.append(",\n".join("  ([%s], [%s])" % (", ".join(_tup(x) for x in c), ", ".join(_tup(x) for x in f)) for _n, c, f in data["hif"]))
    L.append("]")
    L.append("def helperIfaceNames : List String := [" + ", ".join('"%s"' % r[0] for r in data["hif"]) + "]")
    L.append("")
    L.append("/-- ShroudTypeDefines: (name id, referenced name id or 0, literal) meaning value = value(ref) + literal -/")
    L.append("def definesC : List (Nat × Nat × Nat) := [" + ", ".join(_tup(x) for x in data["definesC"]) + "]")
    L.append("def definesF : List (Nat × Nat × Nat) := [" + ", ".join(_tup(x) for x in data["definesF"]) + "]")
    L.append("def defineNames : List String := [" + ", ".join('"%s"' % n for n in data["defnames"]) + "]")
    L.append("")
    L.append("/-- entries with buf_args arg_decl: (c_arg_decl templates (kind, class, n, ptr), f_arg_decl templates (kind, class, n, value, shape));")
    L.append("    kind 0 = built from the argument's type ({cxx_type} with ptr stars / {f_type}..{f_c_dimension}), 1 = fixed class,\n    2 = fixed type with the argument's {f_c_dimension} -/")
    L.append("def declRows : List (List (Nat × Nat × Nat × Nat) × List (Nat × Nat × Nat × Nat × Nat)) := [")
    L.append(",\n".join("  ([%s], [%s])" % (", ".join(_tup(enc_ct(x)) for x in cs), ", ".join(_tup(enc_ft(x)) for x in fs))
                        for _n, cs, fs in data["decl"]))
    L.append("]")
    L.append("/-- same rows: the variable each template names (C list, Fortran list): 1 `{c_var}`, 2 `{cxx_var}`, 0 anything else -/")
    L.append("def declNameRows : List (List Nat × List Nat) := [")
    L.append(",\n".join("  (%s, %s)" % (list(data["declnames"][k][0]), list(data["declnames"][k][1])) for k in data["declkeys"]))
    L.append("]")
    L.append("def declRowNames : List String := [")
    L.append(_lst(['"%s"' % r[0] for r in data["decl"]], per=4))
    L.append("]")
    L.append("/-- entries with f_result_decl: (C return class of the entry's type group (class, n, ptr), declarations) -/")
    L.append("def resultDeclRows : List ((Nat × Nat × Nat) × List (Nat × Nat × Nat × Nat × Nat)) := [")
    L.append(",\n".join("  (%s, [%s])" % (_tup(c), ", ".join(_tup(enc_ft(x)) for x in fs)) for _n, c, fs in data["rdecl"]))
    L.append("]")
    L.append("def resultDeclRowNames : List String := [" + ", ".join('"%s"' % r[0] for r in data["rdecl"]) + "]")
    L.append("")
    L.append("/-- names in the output of a probe library whose user-settable name format fields are sentinels: each name is a")
    L.append("    template, a list of segments: n >= 1000 = format field (n - 1000) of probeFields, n < 1000 = literal part n of probeLits.")
    L.append("    probeBindNames: the name= of every bind(C) interface body (wrappers and helpers, F_CFI off and on);")
    L.append("    probeDefinedNames: every C function the generated headers declare or the generated sources define -/")
    L.append("def probeBindNames : List (List Nat) := [")
    L.append(_lst([str(list(t)) for t in data["probe_b"]], per=6))
    L.append("]")
    L.append("def probeDefinedNames : List (List Nat) := [")
    L.append(_lst([str(list(t)) for t in data["probe_d"]], per=6))
    L.append("]")
    L.append("def probeFields : List String := [" + ", ".join('"%s"' % n for n in NAME_FIELDS) + "]")
    L.append("def probeLits : List String := [" + ", ".join('"%s"' % n for n in data["probe_lits"]) + "]")
    L += ["", "end Shroud.Gen.Interop"]
    return "\n".join(L) + "\n"


def collect():
    from shroud import typemap
    data = {"lookup": {}}
    decl_all, rdecl_all = {}, {}
    for lang in ("c", "c++"):
        names, pairs, rpairs, ents, rrows, combos, erows, rapairs = lookup_tables(lang)
        data["lookup"][lang] = (names, pairs, rpairs, rrows, erows, rapairs)
        data.setdefault("disagreements", []).extend(combos)
        rows, rrows = decl_rows(ents)
        for (n, cs, fs), (_n2, cn, fn) in zip(rows, decl_name_rows(ents)):
            data.setdefault("declnames", {})[(n, repr(cs), repr(fs))] = (cn, fn)
        for n, cs, fs in rows:
            decl_all[(n, repr(cs), repr(fs))] = (n, cs, fs)
        for n, g, sp, fs in rrows:
            # C return class from the type group of the entry: only char scalar exists today
            tm = [t for t in typemap.shared_typedict.values() if t.sgroup == g and t.c_type]
            if not tm or sp != "scalar":
                raise TranslatorError("f_result_decl of %s: cannot derive the C return type" % n)
            p = ip.parse_c_param(tm[0].c_type, want_name=False)
            rdecl_all[n] = (n, enc_c(p), fs)
    data["sgroups"] = sgroups()
    data["decl"] = [decl_all[k] for k in sorted(decl_all)]
    data["declkeys"] = sorted(decl_all)
    data["rdecl"] = [rdecl_all[k] for k in sorted(rdecl_all)]
    data["typemap"] = typemap_rows()
    data["fcnptr"] = fcnptr_rows()
    spairs, hif, cd, fd = helper_tables()
    data["structs"], data["hif"] = spairs, hif
    names = sorted(set(cd) | set(fd))
    nid = {n: i + 1 for i, n in enumerate(names)}

    def nameid(n):
        if n not in nid:
            raise TranslatorError("ShroudTypeDefines refers to undefined %r" % n)
        return nid[n]
    data["probe_b"], data["probe_d"], data["probe_lits"], data["probe_yaml"] = probe_names()
    data["definesC"] = enc_defines(cd, nameid)
    data["definesF"] = enc_defines(fd, nameid)
    data["defnames"] = names
    return data


def regenerate():
    data = collect()
    changed = write_if_changed(GEN, render(data))
    ca, cb = data["lookup"]["c"], data["lookup"]["c++"]
    return {"combinations_c": len(ca[1]), "combinations_cxx": len(cb[1]),
            "lookup_disagree_c": sum(1 for a, b in ca[1] if a != b), "lookup_disagree_cxx": sum(1 for a, b in cb[1] if a != b),
            "result_pairs": len(ca[2]) + len(cb[2]), "entries_c": len(ca[0]), "entries_cxx": len(cb[0]),
            "typemap_rows": len(data["typemap"]), "fcnptr_typemap": data["fcnptr"], "struct_pairs": [s[0] for s in data["structs"]],
            "helper_interfaces": len(data["hif"]), "defines_c": len(data["definesC"]), "defines_f": len(data["definesF"]),
            "decl_rows": len(data["decl"]), "result_decl_rows": len(data["rdecl"]), "changed": changed,
            "disagreements": data.get("disagreements", [])[:200],
            "probe_bind_names": len(data["probe_b"]), "probe_defined_names": len(data["probe_d"]),
            "probe_undefined": [t for t in data["probe_b"] if t not in data["probe_d"]], "probe_yaml": data["probe_yaml"]}


if __name__ == "__main__":
    import json
    print(json.dumps(regenerate(), indent=1))
