"""C01 oracle (implementation only; the Lean model is not consulted).

From one description (a list of function specs over the property's declaration grammar) generate
  * the Shroud YAML,
  * an INSTRUMENTED subject library in C or C++ (prints every value it receives, writes known
    values into output arguments, returns known values),
  * a Fortran driver calling the generated module with boundary values and printing what it
    gets back,
  * the expected trace, computed in Python directly from the declaration and the documented
    conversions (trim + NUL for character input, blank padding / truncation for character output,
    logical <-> bool, implied / hidden / defaulted arguments).
Real Shroud writes the wrappers; gcc/g++/gfortran (-fsanitize=address when the toolchain links it)
build and run them under {language c, c++} x {F_CFI off, on} x {debug off, on}; every
configuration must print exactly the expected trace.
"""
import os
import re
import subprocess
from concurrent.futures import ThreadPoolExecutor

import yaml

from tools import common, shroudrun

L = 12  # declared length of the Fortran character actuals used for output arguments

INTS = [0, 2147483647, -2147483648, 7]
INOUT_INTS = [0, 2147483646, -2147483648, 7]
DBLS = ["0.0", "-1.5", "1.7976931348623157e308", "2.2250738585072014e-308"]
BOOLS = [True, False]
STRS_IN = ["", "abc", "a b  ", "  lead", "twelve chars", "   "]
ARRS = [[], [1], [3, -4, 5]]
CSTR_OUT = ["", "abc", "hello wor"]
STR_OUT = ["", "xyz", "0123456789ABCDEF", "twelve chars", "a  "]
RES_STR = ["", "res", "a  b ", "0123456789012345678901234567890123"]


def fdbl(s):
    return s.replace("e", "d") if "e" in s else s + "_C_DOUBLE"


def fstr(s):
    return "'" + s.replace("'", "''") + "'"


# ------------------------------------------------------------------ argument kinds
# each kind: cxx_only, yaml(name), cparam(name, lang), body(name, lang) -> C statements, fortran decl/value/print,
# expected(values, cnt) -> (library tokens, fortran tokens)
class K:
    cxx_only = False
    visible = True      # part of the Fortran API
    nvals = 1

    def __init__(self, name):
        self.n = name

    def fdecl(self):
        return []

    def fset(self, r):
        return []

    def factual(self, r):
        return self.n

    def fprint(self):
        return []

    def lib_tokens(self, r, cnt, env):
        return []

    def f_tokens(self, r, cnt, env):
        return []


class IntVal(K):
    nvals = len(INTS)

    def yaml(self): return "int %s" % self.n
    def cparam(self, lang): return "int %s" % self.n
    def body(self, lang): return ['printf(" %s=i:%%d", %s);' % (self.n, self.n)]
    def fdecl(self): return ["integer(C_INT) :: %s" % self.n]
    def fset(self, r): return ["%s = %s" % (self.n, ("(-2147483647_C_INT - 1_C_INT)" if INTS[r % 4] == -2147483648 else "%d_C_INT" % INTS[r % 4]))]
    def lib_tokens(self, r, cnt, env): return ["%s=i:%d" % (self.n, INTS[r % 4])]


class DblVal(K):
    nvals = len(DBLS)

    def yaml(self): return "double %s" % self.n
    def cparam(self, lang): return "double %s" % self.n
    def body(self, lang): return ['printf(" %s=d:%%.17g", %s);' % (self.n, self.n)]
    def fdecl(self): return ["real(C_DOUBLE) :: %s" % self.n]
    def fset(self, r): return ["%s = %s" % (self.n, fdbl(DBLS[r % 4]))]
    def lib_tokens(self, r, cnt, env): return ["%s=d:%s" % (self.n, DBLS[r % 4])]


class BoolVal(K):
    nvals = 2

    def yaml(self): return "bool %s" % self.n
    def cparam(self, lang): return "bool %s" % self.n
    def body(self, lang): return ['printf(" %s=b:%%d", %s ? 1 : 0);' % (self.n, self.n)]
    def fdecl(self): return ["logical :: %s" % self.n]
    def fset(self, r): return ["%s = %s" % (self.n, ".true." if BOOLS[r % 2] else ".false.")]
    def lib_tokens(self, r, cnt, env): return ["%s=b:%d" % (self.n, 1 if BOOLS[r % 2] else 0)]


class BoolOut(K):
    nvals = 2

    def yaml(self): return "bool *%s +intent(out)" % self.n
    def cparam(self, lang): return "bool *%s" % self.n
    def body(self, lang): return ["*%s = (cnt %% 2) == 0;" % self.n]
    def fdecl(self): return ["logical :: %s" % self.n]
    def fset(self, r): return ["%s = %s" % (self.n, ".false." if r % 2 == 0 else ".true.")]
    def fprint(self): return ["call plog('%s', %s)" % (self.n, self.n)]
    def f_tokens(self, r, cnt, env): return ["%s=b:%d" % (self.n, 1 if cnt % 2 == 0 else 0)]


class BoolInout(K):
    nvals = 2

    def yaml(self): return "bool *%s +intent(inout)" % self.n
    def cparam(self, lang): return "bool *%s" % self.n
    def body(self, lang): return ['printf(" %s=b:%%d", *%s ? 1 : 0);' % (self.n, self.n), "*%s = !*%s;" % (self.n, self.n)]
    def fdecl(self): return ["logical :: %s" % self.n]
    def fset(self, r): return ["%s = %s" % (self.n, ".true." if BOOLS[r % 2] else ".false.")]
    def fprint(self): return ["call plog('%s', %s)" % (self.n, self.n)]
    def lib_tokens(self, r, cnt, env): return ["%s=b:%d" % (self.n, 1 if BOOLS[r % 2] else 0)]
    def f_tokens(self, r, cnt, env): return ["%s=b:%d" % (self.n, 0 if BOOLS[r % 2] else 1)]


class IntOut(K):
    def yaml(self): return "int *%s +intent(out)" % self.n
    def cparam(self, lang): return "int *%s" % self.n
    def body(self, lang): return ["*%s = 1000 + cnt;" % self.n]
    def fdecl(self): return ["integer(C_INT) :: %s" % self.n]
    def fset(self, r): return ["%s = -1" % self.n]
    def fprint(self): return ["call pint('%s', %s)" % (self.n, self.n)]
    def f_tokens(self, r, cnt, env): return ["%s=i:%d" % (self.n, 1000 + cnt)]


class IntInout(K):
    nvals = 4

    def yaml(self): return "int *%s +intent(inout)" % self.n
    def cparam(self, lang): return "int *%s" % self.n
    def body(self, lang): return ['printf(" %s=i:%%d", *%s);' % (self.n, self.n), "*%s = *%s + 1;" % (self.n, self.n)]
    def fdecl(self): return ["integer(C_INT) :: %s" % self.n]
    def fset(self, r):
        v = INOUT_INTS[r % 4]
        return ["%s = %s" % (self.n, "(-2147483647_C_INT - 1_C_INT)" if v == -2147483648 else "%d_C_INT" % v)]
    def fprint(self): return ["call pint('%s', %s)" % (self.n, self.n)]
    def lib_tokens(self, r, cnt, env): return ["%s=i:%d" % (self.n, INOUT_INTS[r % 4])]
    def f_tokens(self, r, cnt, env): return ["%s=i:%d" % (self.n, INOUT_INTS[r % 4] + 1)]


class IntRefOut(IntOut):
    cxx_only = True

    def yaml(self): return "int &%s +intent(out)" % self.n
    def cparam(self, lang): return "int &%s" % self.n
    def body(self, lang): return ["%s = 1000 + cnt;" % self.n]


class HiddenOut(K):
    visible = False

    def yaml(self): return "int *%s +intent(out)+hidden" % self.n
    def cparam(self, lang): return "int *%s" % self.n
    def body(self, lang): return ['printf(" %s=hidden");' % self.n, "*%s = 5;" % self.n]


class ArrIn(K):
    """const int *a +rank(1) with the extent passed by an implied argument"""
    nvals = len(ARRS)

    def yaml(self): return "const int *%s +rank(1), int n%s +implied(size(%s))" % (self.n, self.n, self.n)
    def cparam(self, lang): return "const int *%s, int n%s" % (self.n, self.n)
    def body(self, lang):
        return ['printf(" n%s=i:%%d %s=a:", n%s);' % (self.n, self.n, self.n),
                '{ int i_; for (i_ = 0; i_ < n%s; i_++) printf("%%d,", %s[i_]); }' % (self.n, self.n)]
    def fdecl(self): return ["integer(C_INT), allocatable :: %s(:)" % self.n]
    def fset(self, r):
        a = ARRS[r % 3]
        return ["if (allocated(%s)) deallocate(%s)" % (self.n, self.n),
                "allocate(%s(%d))" % (self.n, len(a))] + ["%s(%d) = %d" % (self.n, i + 1, v) for i, v in enumerate(a)]
    def lib_tokens(self, r, cnt, env):
        a = ARRS[r % 3]
        return ["n%s=i:%d" % (self.n, len(a)), "%s=a:%s" % (self.n, "".join("%d," % v for v in a))]


class ArrInout(K):
    nvals = len(ARRS)

    def yaml(self): return "int *%s +intent(inout)+rank(1), int n%s +implied(size(%s))" % (self.n, self.n, self.n)
    def cparam(self, lang): return "int *%s, int n%s" % (self.n, self.n)
    def body(self, lang):
        return ['printf(" n%s=i:%%d %s=a:", n%s);' % (self.n, self.n, self.n),
                '{ int i_; for (i_ = 0; i_ < n%s; i_++) { printf("%%d,", %s[i_]); %s[i_] = 2 * %s[i_]; } }' % (self.n, self.n, self.n, self.n)]
    def fdecl(self): return ["integer(C_INT), allocatable :: %s(:)" % self.n]
    def fset(self, r):
        a = ARRS[r % 3]
        return ["if (allocated(%s)) deallocate(%s)" % (self.n, self.n),
                "allocate(%s(%d))" % (self.n, len(a))] + ["%s(%d) = %d" % (self.n, i + 1, v) for i, v in enumerate(a)]
    def fprint(self): return ["call parr('%s', %s)" % (self.n, self.n)]
    def lib_tokens(self, r, cnt, env):
        a = ARRS[r % 3]
        return ["n%s=i:%d" % (self.n, len(a)), "%s=a:%s" % (self.n, "".join("%d," % v for v in a))]
    def f_tokens(self, r, cnt, env): return ["%s=a:%s" % (self.n, "".join("%d," % (2 * v) for v in ARRS[r % 3]))]


def rtrim(s):
    return s.rstrip(" ")


class CstrIn(K):
    nvals = len(STRS_IN)

    def yaml(self): return "const char *%s" % self.n
    def cparam(self, lang): return "const char *%s" % self.n
    def body(self, lang): return ['printf(" %s=s:[%%s]", %s);' % (self.n, self.n)]
    def factual(self, r): return fstr(STRS_IN[r % len(STRS_IN)])
    def lib_tokens(self, r, cnt, env): return ["%s=s:[%s]" % (self.n, rtrim(STRS_IN[r % len(STRS_IN)]))]


class CstrOut(K):
    nvals = len(CSTR_OUT)

    def yaml(self): return "char *%s +intent(out)+charlen(%d)" % (self.n, L)
    def cparam(self, lang): return "char *%s" % self.n
    def body(self, lang):
        return ['{ static const char *o_[] = {%s}; strcpy(%s, o_[cnt %% %d]); }' % (
            ", ".join('"%s"' % s for s in CSTR_OUT), self.n, len(CSTR_OUT))]
    def fdecl(self): return ["character(len=%d) :: %s" % (L, self.n)]
    def fset(self, r): return ["%s = 'qqqqqqqqqqqq'" % self.n]
    def fprint(self): return ["call pstr('%s', %s)" % (self.n, self.n)]
    def f_tokens(self, r, cnt, env): return ["%s=s:[%s]" % (self.n, (CSTR_OUT[cnt % len(CSTR_OUT)] + " " * L)[:L])]


class CstrInout(K):
    nvals = len(STRS_IN)

    def yaml(self): return "char *%s +intent(inout)" % self.n
    def cparam(self, lang): return "char *%s" % self.n
    def body(self, lang):
        return ['printf(" %s=s:[%%s]", %s);' % (self.n, self.n),
                '{ char *p_; for (p_ = %s; *p_; p_++) if (*p_ >= \'a\' && *p_ <= \'z\') *p_ = *p_ - 32; }' % self.n]
    def fdecl(self): return ["character(len=%d) :: %s" % (L, self.n)]
    def fset(self, r): return ["%s = %s" % (self.n, fstr(STRS_IN[r % len(STRS_IN)]))]
    def fprint(self): return ["call pstr('%s', %s)" % (self.n, self.n)]
    def lib_tokens(self, r, cnt, env): return ["%s=s:[%s]" % (self.n, rtrim(STRS_IN[r % len(STRS_IN)]))]
    def f_tokens(self, r, cnt, env):
        return ["%s=s:[%s]" % (self.n, (rtrim(STRS_IN[r % len(STRS_IN)]).upper() + " " * L)[:L])]


class StringIn(K):
    cxx_only = True
    nvals = len(STRS_IN)

    def yaml(self): return "const std::string &%s" % self.n
    def cparam(self, lang): return "const std::string &%s" % self.n
    def body(self, lang): return ['printf(" %s=s:%%d[%%s]", (int) %s.size(), %s.c_str());' % (self.n, self.n, self.n)]
    def factual(self, r): return fstr(STRS_IN[r % len(STRS_IN)])
    def lib_tokens(self, r, cnt, env):
        t = rtrim(STRS_IN[r % len(STRS_IN)])
        return ["%s=s:%d[%s]" % (self.n, len(t), t)]


class StringOut(K):
    cxx_only = True
    nvals = len(STR_OUT)

    def yaml(self): return "std::string &%s +intent(out)" % self.n
    def cparam(self, lang): return "std::string &%s" % self.n
    def body(self, lang):
        return ['{ static const char *o_[] = {%s}; %s = o_[cnt %% %d]; }' % (
            ", ".join('"%s"' % s for s in STR_OUT), self.n, len(STR_OUT))]
    def fdecl(self): return ["character(len=%d) :: %s" % (L, self.n)]
    def fset(self, r): return ["%s = 'qqqqqqqqqqqq'" % self.n]
    def fprint(self): return ["call pstr('%s', %s)" % (self.n, self.n)]
    def f_tokens(self, r, cnt, env): return ["%s=s:[%s]" % (self.n, (STR_OUT[cnt % len(STR_OUT)] + " " * L)[:L])]


class StringInout(K):
    cxx_only = True
    nvals = len(STRS_IN)

    def yaml(self): return "std::string &%s +intent(inout)" % self.n
    def cparam(self, lang): return "std::string &%s" % self.n
    def body(self, lang):
        return ['printf(" %s=s:%%d[%%s]", (int) %s.size(), %s.c_str());' % (self.n, self.n, self.n), '%s += "+";' % self.n]
    def fdecl(self): return ["character(len=%d) :: %s" % (L, self.n)]
    def fset(self, r): return ["%s = %s" % (self.n, fstr(STRS_IN[r % len(STRS_IN)]))]
    def fprint(self): return ["call pstr('%s', %s)" % (self.n, self.n)]
    def lib_tokens(self, r, cnt, env):
        t = rtrim(STRS_IN[r % len(STRS_IN)])
        return ["%s=s:%d[%s]" % (self.n, len(t), t)]
    def f_tokens(self, r, cnt, env):
        return ["%s=s:[%s]" % (self.n, (rtrim(STRS_IN[r % len(STRS_IN)]) + "+" + " " * L)[:L])]


class DefInt(IntVal):
    """trailing defaulted parameter; `default` is what C++ supplies when the caller omits it"""
    cxx_only = True

    def __init__(self, name, default):
        super().__init__(name)
        self.default = default

    def yaml(self): return "int %s = %d" % (self.n, self.default)
    def cparam(self, lang): return "int %s = %d" % (self.n, self.default)


DIMS = [0, 1, 3]
RA = [10 + i for i in range(64)]   # position-dependent: a short copy or a wrong extent shows
DIMS2 = [2, 3, 4]
DIMS3 = [1, 2, 2]
VSZ = [0, 1, 3, 4]
CARR = [[], ["ab  "], ["ab  ", "    ", "wxyz"]]


class DimArg(K):
    """small extent used by +dimension(name) of a result or of another argument"""
    nvals = 3

    def yaml(self): return "int %s" % self.n
    def cparam(self, lang): return "int %s" % self.n
    def body(self, lang): return ['printf(" %s=i:%%d", %s);' % (self.n, self.n)]
    def factual(self, r): return "%d_C_INT" % DIMS[r % 3]
    def lib_tokens(self, r, cnt, env): return ["%s=i:%d" % (self.n, DIMS[r % 3])]


class DimArg2(DimArg):
    def factual(self, r): return "%d_C_INT" % DIMS2[r % 3]
    def lib_tokens(self, r, cnt, env): return ["%s=i:%d" % (self.n, DIMS2[r % 3])]


class DimArg3(DimArg):
    def factual(self, r): return "%d_C_INT" % DIMS3[r % 3]
    def lib_tokens(self, r, cnt, env): return ["%s=i:%d" % (self.n, DIMS3[r % 3])]


def _ext(r, rank):
    e = [DIMS[r % 3], DIMS2[r % 3], DIMS3[r % 3]][:rank]
    n = 1
    for x in e:
        n *= x
    return e, n


class PtrPtrOutN(K):
    """int n, int m[, int k], int **p +intent(out)+dimension(n,m[,k]): Fortran pointer of rank 2 / 3"""
    nvals = 3
    no_cfi = True
    rank = 2

    def _d(self): return ["n", "m", "k"][:self.rank]
    def yaml(self):
        return ", ".join("int %s%s" % (d, self.n) for d in self._d()) + ", int **%s +intent(out)+dimension(%s)" % (
            self.n, ",".join(d + self.n for d in self._d()))
    def cparam(self, lang): return ", ".join("int %s%s" % (d, self.n) for d in self._d()) + ", int **%s" % self.n
    def body(self, lang):
        return ['printf(" %s%s=i:%%d", %s%s);' % (d, self.n, d, self.n) for d in self._d()] + ["*%s = RA;" % self.n]
    def fdecl(self): return ["integer(C_INT), pointer :: %s(%s)" % (self.n, ",".join(":" * 1 for _ in self._d()))]
    def fset(self, r): return ["nullify(%s)" % self.n]
    def factual(self, r):
        e, _ = _ext(r, self.rank)
        return ", ".join("%d_C_INT" % x for x in e) + ", " + self.n
    def fprint(self): return ["call parr('%s_shape', int(shape(%s), C_INT))" % (self.n, self.n),
                              "call parr('%s', reshape(%s, [size(%s)]))" % (self.n, self.n, self.n)]
    def lib_tokens(self, r, cnt, env):
        e, _ = _ext(r, self.rank)
        return ["%s%s=i:%d" % (d, self.n, x) for d, x in zip(self._d(), e)]
    def f_tokens(self, r, cnt, env):
        e, n = _ext(r, self.rank)
        return ["%s_shape=a:%s" % (self.n, "".join("%d," % x for x in e)), "%s=a:%s" % (self.n, "".join("%d," % v for v in RA[:n]))]


class PtrPtrOut3(PtrPtrOutN):
    rank = 3


class ArrAllocOutN(K):
    """int n, int m, int *o +intent(out)+deref(allocatable)+dimension(n,m): the wrapper allocates (n,m)"""
    nvals = 3
    rank = 2

    def _d(self): return ["n", "m", "k"][:self.rank]
    def yaml(self):
        return ", ".join("int %s%s" % (d, self.n) for d in self._d()) + ", int *%s +intent(out)+deref(allocatable)+dimension(%s)" % (
            self.n, ",".join(d + self.n for d in self._d()))
    def cparam(self, lang): return ", ".join("int %s%s" % (d, self.n) for d in self._d()) + ", int *%s" % self.n
    def body(self, lang):
        tot = "*".join(d + self.n for d in self._d())
        return ['printf(" %s%s=i:%%d", %s%s);' % (d, self.n, d, self.n) for d in self._d()] + \
               ['{ int i_; for (i_ = 0; i_ < %s; i_++) %s[i_] = 500 + i_; }' % (tot, self.n)]
    def fdecl(self): return ["integer(C_INT), allocatable :: %s(%s)" % (self.n, ",".join(":" for _ in self._d()))]
    def fset(self, r): return ["if (allocated(%s)) deallocate(%s)" % (self.n, self.n)]
    def factual(self, r):
        e, _ = _ext(r, self.rank)
        return ", ".join("%d_C_INT" % x for x in e) + ", " + self.n
    def fprint(self): return ["call parr('%s_shape', int(shape(%s), C_INT))" % (self.n, self.n),
                              "call parr('%s', reshape(%s, [size(%s)]))" % (self.n, self.n, self.n)]
    def lib_tokens(self, r, cnt, env):
        e, _ = _ext(r, self.rank)
        return ["%s%s=i:%d" % (d, self.n, x) for d, x in zip(self._d(), e)]
    def f_tokens(self, r, cnt, env):
        e, n = _ext(r, self.rank)
        return ["%s_shape=a:%s" % (self.n, "".join("%d," % x for x in e)), "%s=a:%s" % (self.n, "".join("%d," % (500 + i) for i in range(n)))]


class ImplText(K):
    """char *text +intent(out)+charlen(L), int l +implied(len(text)), int t +implied(len_trim(text)), bool b +implied(true),
    int a +implied(len(text)*2-1)"""
    nvals = 3
    TXT = ["qq          ", "            ", "abcdefghijkl"]

    def yaml(self):
        n = self.n
        return ("char *%s +intent(inout), int xl%s +implied(len(%s)), int xt%s +implied(len_trim(%s)), "
                "bool xb%s +implied(true), bool xc%s +implied(false), int xa%s +implied(len(%s)*2-1)" % (n, n, n, n, n, n, n, n, n))
    def cparam(self, lang): return "char *%s, int xl%s, int xt%s, bool xb%s, bool xc%s, int xa%s" % ((self.n,) * 6)
    def body(self, lang):
        n = self.n
        return ['printf(" %s=s:[%%s] xl%s=i:%%d xt%s=i:%%d xb%s=b:%%d xc%s=b:%%d xa%s=i:%%d", %s, xl%s, xt%s, xb%s ? 1 : 0, xc%s ? 1 : 0, xa%s);' % (
            n, n, n, n, n, n, n, n, n, n, n, n)]
    def fdecl(self): return ["character(len=%d) :: %s" % (L, self.n)]
    def fset(self, r): return ["%s = %s" % (self.n, fstr(self.TXT[r % 3]))]
    def lib_tokens(self, r, cnt, env):
        t = self.TXT[r % 3]
        n = self.n
        return ["%s=s:[%s]" % (n, rtrim(t)), "xl%s=i:%d" % (n, L), "xt%s=i:%d" % (n, len(rtrim(t))), "xb%s=b:1" % n, "xc%s=b:0" % n,
                "xa%s=i:%d" % (n, L * 2 - 1)]


class GenVoid(K):
    """void *addr, int type +implied(type(addr)), size_t n +implied(size(addr)) with fortran_generic variants that change
    the TYPE of addr (int / float / double, rank 1): the library interprets the data by the type code it is given"""
    nvals = 6
    gen = [("(int *%s +rank(1)+deref(raw)+intent(in))", "_int"), ("(float *%s +rank(1)+deref(raw)+intent(in))", "_float"),
           ("(double *%s +rank(1)+deref(raw)+intent(in))", "_double")]
    needs_type_defines = True
    DATA = [("i", [3, -4]), ("f", ["1.5", "2.5", "-0.25"]), ("d", ["0.125"]), ("i", []), ("f", ["8.0"]), ("d", ["2.5", "3.5"])]

    def yaml(self):
        n = self.n
        return "void *%s, int ty%s +implied(type(%s)), size_t nn%s +implied(size(%s))" % (n, n, n, n, n)
    def cparam(self, lang): return "void *%s, int ty%s, size_t nn%s" % (self.n, self.n, self.n)
    def body(self, lang):
        n = self.n
        return ['{ size_t i_; switch (ty%s) {' % n,
                ' case SH_TYPE_INT: printf(" ty%s=INT %s=a:"); for (i_ = 0; i_ < nn%s; i_++) printf("%%d,", ((int *) %s)[i_]); break;' % (n, n, n, n),
                ' case SH_TYPE_FLOAT: printf(" ty%s=FLOAT %s=a:"); for (i_ = 0; i_ < nn%s; i_++) printf("%%.9g,", (double) ((float *) %s)[i_]); break;' % (n, n, n, n),
                ' case SH_TYPE_DOUBLE: printf(" ty%s=DOUBLE %s=a:"); for (i_ = 0; i_ < nn%s; i_++) printf("%%.9g,", ((double *) %s)[i_]); break;' % (n, n, n, n),
                ' default: printf(" ty%s=OTHER(%%d) nn=%%d", ty%s, (int) nn%s); } }' % (n, n, n)]
    def fdecl(self):
        n = self.n
        return ["integer(C_INT), allocatable :: %s_i(:)" % n, "real(C_FLOAT), allocatable :: %s_f(:)" % n, "real(C_DOUBLE), allocatable :: %s_d(:)" % n]
    def fset(self, r):
        k, vals = self.DATA[r % 6]
        v = "%s_%s" % (self.n, k)
        suf = {"i": "_C_INT", "f": "_C_FLOAT", "d": "_C_DOUBLE"}[k]
        return ["if (allocated(%s)) deallocate(%s)" % (v, v), "allocate(%s(%d))" % (v, len(vals))] + \
               ["%s(%d) = %s%s" % (v, i + 1, x, suf) for i, x in enumerate(vals)]
    def factual(self, r): return "%s_%s" % (self.n, self.DATA[r % 6][0])
    def lib_tokens(self, r, cnt, env):
        k, vals = self.DATA[r % 6]
        name = {"i": "INT", "f": "FLOAT", "d": "DOUBLE"}[k]
        return ["ty%s=%s" % (self.n, name), "%s=a:%s" % (self.n, "".join(("%d," % x) if k == "i" else ("%.9g," % float(x)) for x in vals))]


class ArrOut(K):
    """int *a +intent(out)+rank(1) with implied extent (zero-length included)"""
    nvals = 3

    def yaml(self): return "int *%s +intent(out)+rank(1), int n%s +implied(size(%s))" % (self.n, self.n, self.n)
    def cparam(self, lang): return "int *%s, int n%s" % (self.n, self.n)
    def body(self, lang):
        return ['printf(" n%s=i:%%d", n%s);' % (self.n, self.n),
                '{ int i_; for (i_ = 0; i_ < n%s; i_++) %s[i_] = 100 * cnt + i_; }' % (self.n, self.n)]
    def fdecl(self): return ["integer(C_INT), allocatable :: %s(:)" % self.n]
    def fset(self, r):
        return ["if (allocated(%s)) deallocate(%s)" % (self.n, self.n), "allocate(%s(%d))" % (self.n, DIMS[r % 3]), "%s = -9" % self.n]
    def fprint(self): return ["call parr('%s', %s)" % (self.n, self.n)]
    def lib_tokens(self, r, cnt, env): return ["n%s=i:%d" % (self.n, DIMS[r % 3])]
    def f_tokens(self, r, cnt, env): return ["%s=a:%s" % (self.n, "".join("%d," % (100 * cnt + i) for i in range(DIMS[r % 3])))]


class ArrAllocOut(K):
    """const int *in +rank(1), int *out +intent(out)+deref(allocatable)+dimension(size(in)), int n +implied(size(in))"""
    nvals = 3

    def yaml(self):
        n = self.n
        return ("const int *i%s +rank(1), int *%s +intent(out)+deref(allocatable)+dimension(size(i%s)), "
                "int n%s +implied(size(i%s))" % (n, n, n, n, n))
    def cparam(self, lang): return "const int *i%s, int *%s, int n%s" % (self.n, self.n, self.n)
    def body(self, lang):
        return ['printf(" n%s=i:%%d i%s=a:", n%s);' % (self.n, self.n, self.n),
                '{ int i_; for (i_ = 0; i_ < n%s; i_++) { printf("%%d,", i%s[i_]); %s[i_] = i%s[i_] + 1; } }' % (self.n, self.n, self.n, self.n)]
    def fdecl(self): return ["integer(C_INT), allocatable :: i%s(:)" % self.n, "integer(C_INT), allocatable :: %s(:)" % self.n]
    def fset(self, r):
        a = ARRS[r % 3]
        return ["if (allocated(i%s)) deallocate(i%s)" % (self.n, self.n), "if (allocated(%s)) deallocate(%s)" % (self.n, self.n),
                "allocate(i%s(%d))" % (self.n, len(a))] + ["i%s(%d) = %d" % (self.n, i + 1, v) for i, v in enumerate(a)]
    def factual(self, r): return "i%s, %s" % (self.n, self.n)
    def fprint(self): return ["call parr('%s', %s)" % (self.n, self.n)]
    def lib_tokens(self, r, cnt, env):
        a = ARRS[r % 3]
        return ["n%s=i:%d" % (self.n, len(a)), "i%s=a:%s" % (self.n, "".join("%d," % v for v in a))]
    def f_tokens(self, r, cnt, env): return ["%s=a:%s" % (self.n, "".join("%d," % (v + 1) for v in ARRS[r % 3]))]


class PtrPtrOut(K):
    """int n, int **p +intent(out)+dimension(n): a Fortran pointer to library memory with extent n"""
    no_cfi = True   # no `_cfi` statement entry: the open finding's territory
    nvals = 3

    def yaml(self): return "int n%s, int **%s +intent(out)+dimension(n%s)" % (self.n, self.n, self.n)
    def cparam(self, lang): return "int n%s, int **%s" % (self.n, self.n)
    def body(self, lang): return ['printf(" n%s=i:%%d", n%s);' % (self.n, self.n), "*%s = RA;" % self.n]
    def fdecl(self): return ["integer(C_INT), pointer :: %s(:)" % self.n]
    def fset(self, r): return ["nullify(%s)" % self.n]
    def factual(self, r): return "%d_C_INT, %s" % (DIMS[r % 3], self.n)
    def fprint(self): return ["call parr('%s', %s)" % (self.n, self.n)]
    def lib_tokens(self, r, cnt, env): return ["n%s=i:%d" % (self.n, DIMS[r % 3])]
    def f_tokens(self, r, cnt, env): return ["%s=a:%s" % (self.n, "".join("%d," % v for v in RA[:DIMS[r % 3]]))]


class CharArrIn(K):
    """char **names +intent(in) from character(len=4) :: names(n), n = 0, 1, 3"""
    no_cfi = True   # no `_cfi` statement entry: the open finding's territory
    nvals = 3

    def yaml(self): return "char **%s +intent(in), int z%s +implied(size(%s))" % (self.n, self.n, self.n)
    def cparam(self, lang): return "char **%s, int z%s" % (self.n, self.n)
    def body(self, lang):
        return ['printf(" z%s=i:%%d %s=S:", z%s);' % (self.n, self.n, self.n),
                '{ int i_; for (i_ = 0; i_ < z%s; i_++) printf("[%%s]", %s[i_]); }' % (self.n, self.n)]
    def fdecl(self): return ["character(len=4), allocatable :: %s(:)" % self.n]
    def fset(self, r):
        a = CARR[r % 3]
        return ["if (allocated(%s)) deallocate(%s)" % (self.n, self.n), "allocate(%s(%d))" % (self.n, len(a))] + \
               ["%s(%d) = %s" % (self.n, i + 1, fstr(v)) for i, v in enumerate(a)]
    def lib_tokens(self, r, cnt, env):
        a = CARR[r % 3]
        return ["z%s=i:%d" % (self.n, len(a)), "%s=S:%s" % (self.n, "".join("[%s]" % rtrim(v) for v in a))]


class VecStrIn(K):
    """const std::vector<std::string> & from character(len=4) :: v(n), n = 0, 1, 3"""
    cxx_only = True
    nvals = 3

    def yaml(self): return "const std::vector<std::string> &%s" % self.n
    def cparam(self, lang): return "const std::vector<std::string> &%s" % self.n
    def body(self, lang):
        return ['printf(" %s=VS:%%d:", (int) %s.size());' % (self.n, self.n),
                '{ size_t i_; for (i_ = 0; i_ < %s.size(); i_++) printf("%%d[%%s]", (int) %s[i_].size(), %s[i_].c_str()); }' % (self.n, self.n, self.n)]
    def fdecl(self): return ["character(len=4), allocatable :: %s(:)" % self.n]
    def fset(self, r):
        a = CARR[r % 3]
        return ["if (allocated(%s)) deallocate(%s)" % (self.n, self.n), "allocate(%s(%d))" % (self.n, len(a))] + \
               ["%s(%d) = %s" % (self.n, i + 1, fstr(v)) for i, v in enumerate(a)]
    def lib_tokens(self, r, cnt, env):
        a = CARR[r % 3]
        return ["%s=VS:%d:%s" % (self.n, len(a), "".join("%d[%s]" % (len(rtrim(v)), rtrim(v)) for v in a))]


VDEST = [0, 1, 3, 5]


class VecIn(K):
    no_cfi = True   # no `_cfi` statement entry: the open finding's territory
    cxx_only = True
    nvals = 3

    def yaml(self): return "const std::vector<int> &%s" % self.n
    def cparam(self, lang): return "const std::vector<int> &%s" % self.n
    def body(self, lang):
        return ['printf(" %s=V:%%d:", (int) %s.size());' % (self.n, self.n),
                '{ size_t i_; for (i_ = 0; i_ < %s.size(); i_++) printf("%%d,", %s[i_]); }' % (self.n, self.n)]
    def fdecl(self): return ["integer(C_INT), allocatable :: %s(:)" % self.n]
    def fset(self, r):
        a = ARRS[r % 3]
        return ["if (allocated(%s)) deallocate(%s)" % (self.n, self.n), "allocate(%s(%d))" % (self.n, len(a))] + \
               ["%s(%d) = %d" % (self.n, i + 1, v) for i, v in enumerate(a)]
    def lib_tokens(self, r, cnt, env):
        a = ARRS[r % 3]
        return ["%s=V:%d:%s" % (self.n, len(a), "".join("%d," % v for v in a))]


class VecOut(K):
    """std::vector<int> & +intent(out) into caller arrays of extent 0, 1, 3, 5; vectors of size 0, 1, 3, 4"""
    no_cfi = True   # no `_cfi` statement entry: the open finding's territory
    cxx_only = True
    nvals = 8
    alloc = False

    def yaml(self): return "std::vector<int> &%s +intent(out)%s" % (self.n, "+deref(allocatable)" if self.alloc else "")
    def cparam(self, lang): return "std::vector<int> &%s" % self.n
    def body(self, lang):
        return ['{ static const int vs_[] = {%s}; %s.assign(RA, RA + vs_[cnt %% 4]); }' % (", ".join(map(str, VSZ)), self.n)]
    def fdecl(self): return ["integer(C_INT), allocatable :: %s(:)" % self.n]
    def _m(self, r): return [0, 3, 1, 0, 3, 1, 3, 5][r % 8]   # vs vector sizes 0,1,3,4,0,1,3,4: empty, longer, shorter, exact
    def fset(self, r):
        return ["if (allocated(%s)) deallocate(%s)" % (self.n, self.n), "allocate(%s(%d))" % (self.n, self._m(r)), "%s = -9" % self.n]
    def fprint(self): return ["call parr('%s', %s)" % (self.n, self.n)]
    def f_tokens(self, r, cnt, env):
        l = RA[:VSZ[cnt % 4]]
        if self.alloc:
            out = l
        else:
            m = self._m(r)
            k = min(m, len(l))
            out = l[:k] + [-9] * (m - k)
        return ["%s=a:%s" % (self.n, "".join("%d," % v for v in out))]


class VecOutAlloc(VecOut):
    alloc = True


class VecInout(K):
    no_cfi = True   # no `_cfi` statement entry: the open finding's territory
    cxx_only = True
    nvals = 3
    alloc = False

    def yaml(self): return "std::vector<int> &%s +intent(inout)%s" % (self.n, "+deref(allocatable)" if self.alloc else "")
    def cparam(self, lang): return "std::vector<int> &%s" % self.n
    def body(self, lang):
        return ['printf(" %s=V:%%d:", (int) %s.size());' % (self.n, self.n),
                '{ size_t i_; for (i_ = 0; i_ < %s.size(); i_++) { printf("%%d,", %s[i_]); %s[i_] *= 3; } }' % (self.n, self.n, self.n),
                "%s.push_back(77);" % self.n]
    def fdecl(self): return ["integer(C_INT), allocatable :: %s(:)" % self.n]
    def fset(self, r):
        a = ARRS[r % 3]
        return ["if (allocated(%s)) deallocate(%s)" % (self.n, self.n), "allocate(%s(%d))" % (self.n, len(a))] + \
               ["%s(%d) = %d" % (self.n, i + 1, v) for i, v in enumerate(a)]
    def fprint(self): return ["call parr('%s', %s)" % (self.n, self.n)]
    def lib_tokens(self, r, cnt, env):
        a = ARRS[r % 3]
        return ["%s=V:%d:%s" % (self.n, len(a), "".join("%d," % v for v in a))]
    def f_tokens(self, r, cnt, env):
        a = ARRS[r % 3]
        new = [3 * v for v in a] + [77]
        out = new if self.alloc else new[:len(a)]
        return ["%s=a:%s" % (self.n, "".join("%d," % v for v in out))]


class VecInoutAlloc(VecInout):
    alloc = True


class TplArg(K):
    """`T tv` of `template<typename T>` instantiated for int and double; reached through the generic name"""
    cxx_only = True
    nvals = 4
    VALS = [("7_C_INT", "i:7"), ("2.5_C_DOUBLE", "d:2.5"), ("-3_C_INT", "i:-3"), ("0.0_C_DOUBLE", "d:0.0")]

    def yaml(self): return "T %s" % self.n
    def cparam(self, lang): return "T %s" % self.n
    def body(self, lang): return ['pv_(" %s=", %s);' % (self.n, self.n)]
    def factual(self, r): return self.VALS[r % 4][0]
    def lib_tokens(self, r, cnt, env): return ["%s=%s" % (self.n, self.VALS[r % 4][1])]


PT_VALS = [(0, "0.5"), (2147483646, "-2.25"), (-5, "1e10")]
PT_YAML = {"decl": "struct Pt { int x; double y; };"}
PT_HDR_C = "struct Pt { int x; double y; };\ntypedef struct Pt Pt;"
PT_HDR_CXX = "struct Pt { int x; double y; };"


class StructVal(K):
    """a struct by value / by pointer / by reference, intent in or inout; the library prints the members and
    (inout) changes them: x += 1, y *= 2"""
    nvals = 3
    lib_yaml = [PT_YAML]
    lib_header = (PT_HDR_C, PT_HDR_CXX)
    form = "val"      # val | ptr_in | ptr_inout | ref_in | ref_inout

    def yaml(self):
        return {"val": "Pt %s", "ptr_in": "const Pt *%s", "ptr_inout": "Pt *%s +intent(inout)", "ref_in": "const Pt &%s",
                "ref_inout": "Pt &%s +intent(inout)"}[self.form] % self.n
    def cparam(self, lang):
        return {"val": "Pt %s", "ptr_in": "const Pt *%s", "ptr_inout": "Pt *%s", "ref_in": "const Pt &%s", "ref_inout": "Pt &%s"}[self.form] % self.n
    def body(self, lang):
        m = "->" if self.form.startswith("ptr") else "."
        b = ['printf(" %s.x=i:%%d %s.y=d:%%.17g", %s%sx, %s%sy);' % (self.n, self.n, self.n, m, self.n, m)]
        if self.form.endswith("inout"):
            b += ["%s%sx += 1; %s%sy *= 2;" % (self.n, m, self.n, m)]
        return b
    def fdecl(self): return ["type(pt) :: %s" % self.n]
    def fset(self, r):
        x, y = PT_VALS[r % 3]
        return ["%s%%x = %d_C_INT" % (self.n, x) if x >= 0 else "%s%%x = %d" % (self.n, x), "%s%%y = %s" % (self.n, fdbl(y))]
    def fprint(self):
        if not self.form.endswith("inout"):
            return []
        return ["call pint('%s.x', %s%%x)" % (self.n, self.n), "call pdbl('%s.y', %s%%y)" % (self.n, self.n)]
    def lib_tokens(self, r, cnt, env):
        x, y = PT_VALS[r % 3]
        return ["%s.x=i:%d" % (self.n, x), "%s.y=d:%s" % (self.n, y)]
    def f_tokens(self, r, cnt, env):
        if not self.form.endswith("inout"):
            return []
        x, y = PT_VALS[r % 3]
        return ["%s.x=i:%d" % (self.n, x + 1), "%s.y=d:%r" % (self.n, float(y) * 2)]


class StructPtrIn(StructVal):
    form = "ptr_in"


class StructPtrInout(StructVal):
    form = "ptr_inout"


class StructRefIn(StructVal):
    form = "ref_in"
    cxx_only = True


class StructRefInout(StructVal):
    form = "ref_inout"
    cxx_only = True


LEVELS = [("BASE", 1), ("LOW", 11), ("LOW_PLUS", 12), ("HIGH", 21), ("HIGH_PLUS", 22), ("TOP", 23)]
LEVEL_DECL = "enum Level { BASE = 1, LOW = BASE + 10, LOW_PLUS, HIGH = BASE + 20, HIGH_PLUS, TOP };"


class EnumVal(K):
    """an enumerator passed by its generated Fortran constant: two expression-valued members each followed by implicit ones"""
    nvals = len(LEVELS)
    lib_yaml = [{"decl": LEVEL_DECL}]
    lib_header = (LEVEL_DECL, LEVEL_DECL)

    def yaml(self): return "int %s" % self.n
    def cparam(self, lang): return "int %s" % self.n
    def body(self, lang): return ['printf(" %s=i:%%d", %s);' % (self.n, self.n)]
    def factual(self, r): return LEVELS[r % len(LEVELS)][0].lower()
    def lib_tokens(self, r, cnt, env): return ["%s=i:%d" % (self.n, LEVELS[r % len(LEVELS)][1])]


class AssumedRank(K):
    """const int *v +dimension(..), int n: called with a scalar, a rank-1 and a rank-2 (= F_assumed_rank_max) actual"""
    nvals = 3
    decl_options = {"F_assumed_rank_max": 2}

    def yaml(self): return "const int *%s +dimension(..), int n%s" % (self.n, self.n)
    def cparam(self, lang): return "const int *%s, int n%s" % (self.n, self.n)
    def body(self, lang):
        return ['printf(" n%s=i:%%d %s=a:", n%s);' % (self.n, self.n, self.n),
                '{ int i_; for (i_ = 0; i_ < n%s; i_++) printf("%%d,", %s[i_]); }' % (self.n, self.n)]
    def fdecl(self):
        return ["integer(C_INT) :: %s_0" % self.n, "integer(C_INT) :: %s_1(3)" % self.n, "integer(C_INT) :: %s_2(2,2)" % self.n]
    def fset(self, r):
        return [["%s_0 = 5" % self.n], ["%s_1 = [6, 7, 8]" % self.n], ["%s_2 = reshape([1, 2, 3, 4], [2, 2])" % self.n]][r % 3]
    def factual(self, r):
        return ["%s_0, 1_C_INT" % self.n, "%s_1, 3_C_INT" % self.n, "%s_2, 4_C_INT" % self.n][r % 3]
    def lib_tokens(self, r, cnt, env):
        v = [[5], [6, 7, 8], [1, 2, 3, 4]][r % 3]
        return ["n%s=i:%d" % (self.n, len(v)), "%s=a:%s" % (self.n, "".join("%d," % x for x in v))]


GEN_DBLS = ["2.5", "-0.25", "1024.0", "0.0"]


class GenDbl(K):
    """double argument reached through fortran_generic variants (float / double); values exact in both"""
    nvals = 4
    gen = [("(float %s)", "_float"), ("(double %s)", "_double")]

    def yaml(self): return "double %s" % self.n
    def cparam(self, lang): return "double %s" % self.n
    def body(self, lang): return ['printf(" %s=d:%%.17g", %s);' % (self.n, self.n)]
    def factual(self, r): return GEN_DBLS[r % 4] + ("_C_FLOAT" if r % 2 == 0 else "_C_DOUBLE")
    def lib_tokens(self, r, cnt, env): return ["%s=d:%s" % (self.n, GEN_DBLS[r % 4])]


class GenArr(K):
    """`const int *v, int nv` reached through a scalar and a rank(1) fortran_generic variant"""
    nvals = 6
    gen = [("(const int *%s)", "_scalar"), ("(const int *%s +rank(1))", "_array")]

    def yaml(self): return "const int *%s, int n%s" % (self.n, self.n)
    def cparam(self, lang): return "const int *%s, int n%s" % (self.n, self.n)
    def body(self, lang):
        return ['printf(" n%s=i:%%d %s=a:", n%s);' % (self.n, self.n, self.n),
                '{ int i_; for (i_ = 0; i_ < n%s; i_++) printf("%%d,", %s[i_]); }' % (self.n, self.n)]
    def fdecl(self): return ["integer(C_INT) :: %s_s" % self.n, "integer(C_INT), allocatable :: %s_a(:)" % self.n]
    def _vals(self, r): return [70 + r] if r % 2 == 0 else ARRS[(r // 2) % 3]
    def fset(self, r):
        if r % 2 == 0:
            return ["%s_s = %d" % (self.n, 70 + r)]
        a = self._vals(r)
        return ["if (allocated(%s_a)) deallocate(%s_a)" % (self.n, self.n), "allocate(%s_a(%d))" % (self.n, len(a))] + \
               ["%s_a(%d) = %d" % (self.n, i + 1, v) for i, v in enumerate(a)]
    def factual(self, r):
        return "%s_s, 1_C_INT" % self.n if r % 2 == 0 else "%s_a, size(%s_a, kind=C_INT)" % (self.n, self.n)
    def lib_tokens(self, r, cnt, env):
        a = self._vals(r)
        return ["n%s=i:%d" % (self.n, len(a)), "%s=a:%s" % (self.n, "".join("%d," % v for v in a))]


class VoidPtr(K):
    """`void *p`: the caller's type(C_PTR) holds the address of an integer target; the library prints the integer it
    finds at the address it receives and whether a second look at the same argument list gives the same address.
    One class per spelling of the declaration (const / explicit intent(in)): the documented interface is
    `type(C_PTR), value, intent(IN)` for all of them"""
    nvals = len(INTS)
    spelling = "void *%s"
    cconst = ""

    def yaml(self): return self.spelling % self.n
    def cparam(self, lang): return "%svoid *%s" % (self.cconst, self.n)
    def body(self, lang): return ['printf(" %s=vp:%%d", *(const int *) %s);' % (self.n, self.n)]
    def fdecl(self): return ["integer(C_INT), target :: %s_t" % self.n, "type(C_PTR) :: %s" % self.n]
    def fset(self, r):
        v = INTS[r % 4]
        return ["%s_t = %s" % (self.n, "(-2147483647_C_INT - 1_C_INT)" if v == -2147483648 else "%d_C_INT" % v),
                "%s = c_loc(%s_t)" % (self.n, self.n)]
    def lib_tokens(self, r, cnt, env): return ["%s=vp:%d" % (self.n, INTS[r % 4])]


class VoidPtrConst(VoidPtr):
    spelling = "const void *%s"
    cconst = "const "


class VoidPtrIntentIn(VoidPtr):
    spelling = "void *%s +intent(in)"


class VoidPtrConstIntentIn(VoidPtr):
    spelling = "const void *%s +intent(in)"
    cconst = "const "


class VoidPtrExpr(VoidPtrConst):
    """the actual is the expression c_loc(array): the library sums the elements behind the address"""
    nvals = 3

    def yaml(self): return "const void *%s, int n%s" % (self.n, self.n)
    def cparam(self, lang): return "const void *%s, int n%s" % (self.n, self.n)
    def body(self, lang):
        return ['printf(" n%s=i:%%d %s=a:", n%s);' % (self.n, self.n, self.n),
                '{ int i_; for (i_ = 0; i_ < n%s; i_++) printf("%%d,", ((const int *) %s)[i_]); }' % (self.n, self.n)]
    def fdecl(self): return ["integer(C_INT), target :: %s_a(3)" % self.n]
    def fset(self, r): return ["%s_a = [3, -4, 5]" % self.n]
    def factual(self, r): return "c_loc(%s_a), %d_C_INT" % (self.n, [0, 1, 3][r % 3])
    def lib_tokens(self, r, cnt, env):
        a = [3, -4, 5][:[0, 1, 3][r % 3]]
        return ["n%s=i:%d" % (self.n, len(a)), "%s=a:%s" % (self.n, "".join("%d," % v for v in a))]


ARG_KINDS_C = [VoidPtr, VoidPtrConst, VoidPtrIntentIn, VoidPtrConstIntentIn, VoidPtrExpr, IntVal, DblVal, BoolVal, BoolOut, BoolInout, IntOut, IntInout, HiddenOut, ArrIn, ArrInout, ArrOut, ArrAllocOut,
               PtrPtrOut, PtrPtrOutN, PtrPtrOut3, ArrAllocOutN, ImplText, CharArrIn, CstrIn, CstrOut, CstrInout,
               StructVal, StructPtrIn, StructPtrInout, EnumVal]
ARG_KINDS_CXX = ARG_KINDS_C + [IntRefOut, StringIn, StringOut, StringInout, VecIn, VecOut, VecOutAlloc, VecInout, VecInoutAlloc, VecStrIn, StructRefIn, StructRefInout]

# ------------------------------------------------------------------ results
# (tag, yaml type prefix, attrs, C return type, C return expression, Fortran decl, print call, expected fn(cnt), cxx_only)
RESULTS = {
    "void": None,
    "int": ("int", "", "int", "40 + cnt", "integer(C_INT) :: rv", "call pint('rv', rv)", lambda c: "rv=i:%d" % (40 + c), False),
    "double": ("double", "", "double", "0.5 * cnt", "real(C_DOUBLE) :: rv", "call pdbl('rv', rv)", lambda c: "rv=d:%r" % (0.5 * c), False),
    "bool": ("bool", "", "bool", "(cnt % 2) == 1", "logical :: rv", "call plog('rv', rv)", lambda c: "rv=b:%d" % (c % 2), False),
    "chr": ("char", "", "char", "(char) ('A' + cnt % 26)", "character(len=1) :: rv", "call pstr('rv', rv)",
            lambda c: "rv=s:[%s]" % chr(65 + c % 26), False),
    # results returned as they are by a bufferify / cfi function (no buf / cfi statements for the result)
    "craw": ("const char *", " +deref(raw)", "const char *", "RS[1]", "type(C_PTR) :: rv", "call pptr('rv', rv)",
             lambda c: "rv=p:1", False),
    "iscal": ("int *", "", "int *", "RA + cnt", "integer(C_INT), pointer :: rv", "call pint('rv', rv)",
              lambda c: "rv=i:%d" % RA[c], False, "=>"),
    "cstr": ("const char *", "", "const char *", "RS[cnt % 4]", "character(len=:), allocatable :: rv", "call pstrl('rv', rv)",
             lambda c: "rv=s:%d[%s]" % (len(RES_STR[c % 4]), RES_STR[c % 4]), False),
    "cstr_len": ("const char *", " +len(30)", "const char *", "RS[cnt % 4]", "character(len=30) :: rv", "call pstr('rv', rv)",
                 lambda c: "rv=s:[%s]" % ((RES_STR[c % 4] + " " * 30)[:30]), False),
    "string": ("const std::string", "", "const std::string", "std::string(RS[cnt % 4])", "character(len=:), allocatable :: rv",
               "call pstrl('rv', rv)", lambda c: "rv=s:%d[%s]" % (len(RES_STR[c % 4]), RES_STR[c % 4]), True),
    "string_ref": ("const std::string &", "", "const std::string &", "RSS[cnt % 4]", "character(len=:), allocatable :: rv",
                   "call pstrl('rv', rv)", lambda c: "rv=s:%d[%s]" % (len(RES_STR[c % 4]), RES_STR[c % 4]), True),
    "string_len": ("const std::string &", " +len(30)", "const std::string &", "RSS[cnt % 4]", "character(len=30) :: rv",
                   "call pstr('rv', rv)", lambda c: "rv=s:[%s]" % ((RES_STR[c % 4] + " " * 30)[:30]), True),
    # pointer / allocatable native results through the context struct: `{dim}` is the DimArg of the function
    "iptr": ("int *", " +dimension({dim})+deref(pointer)", "int *", "RA", "integer(C_INT), pointer :: rv(:)", "call parr('rv', rv)",
             lambda c: "rv=a:%s" % "".join("%d," % v for v in RA[:DIMS[c % 3]]), False, "=>"),
    "ialloc": ("int *", " +dimension({dim})+deref(allocatable)", "int *", "RA", "integer(C_INT), allocatable :: rv(:)",
               "call parr('rv', rv)", lambda c: "rv=a:%s" % "".join("%d," % v for v in RA[:DIMS[c % 3]]), False, "="),
    "ialloc2": ("int *", " +dimension({dim},{dim2})+deref(allocatable)", "int *", "RA", "integer(C_INT), allocatable :: rv(:,:)",
                "call parr('rv_shape', int(shape(rv), C_INT)); call parr('rv', reshape(rv, [size(rv)]))",
                lambda c: "rv_shape=a:%s rv=a:%s" % ("".join("%d," % x for x in _ext(c, 2)[0]), "".join("%d," % v for v in RA[:_ext(c, 2)[1]])), False, "="),
    "iptr2": ("int *", " +dimension({dim},{dim2})+deref(pointer)", "int *", "RA", "integer(C_INT), pointer :: rv(:,:)",
              "call parr('rv_shape', int(shape(rv), C_INT)); call parr('rv', reshape(rv, [size(rv)]))",
              lambda c: "rv_shape=a:%s rv=a:%s" % ("".join("%d," % x for x in _ext(c, 2)[0]), "".join("%d," % v for v in RA[:_ext(c, 2)[1]])), False, "=>"),
    "ialloc3": ("int *", " +dimension({dim},{dim2},{dim3})+deref(allocatable)", "int *", "RA", "integer(C_INT), allocatable :: rv(:,:,:)",
                "call parr('rv_shape', int(shape(rv), C_INT)); call parr('rv', reshape(rv, [size(rv)]))",
                lambda c: "rv_shape=a:%s rv=a:%s" % ("".join("%d," % x for x in _ext(c, 3)[0]), "".join("%d," % v for v in RA[:_ext(c, 3)[1]])), False, "="),
    "iptr3": ("int *", " +dimension({dim},{dim2},{dim3})+deref(pointer)", "int *", "RA", "integer(C_INT), pointer :: rv(:,:,:)",
              "call parr('rv_shape', int(shape(rv), C_INT)); call parr('rv', reshape(rv, [size(rv)]))",
              lambda c: "rv_shape=a:%s rv=a:%s" % ("".join("%d," % x for x in _ext(c, 3)[0]), "".join("%d," % v for v in RA[:_ext(c, 3)[1]])), False, "=>"),
    "vecres": ("std::vector<int>", "", "std::vector<int>", "std::vector<int>(RA, RA + VS[cnt % 4])",
               "integer(C_INT), allocatable :: rv(:)", "call parr('rv', rv)",
               lambda c: "rv=a:%s" % "".join("%d," % v for v in RA[:VSZ[c % 4]]), True, "="),
}
RES_C = ["void", "void", "int", "double", "bool", "chr", "cstr", "cstr_len"]
RES_CXX = RES_C + ["string", "string_ref", "string_len"]
RES_DIM = ["iptr", "ialloc"]
RES_DIM2 = ["ialloc2", "iptr2"]
RES_DIM3 = ["ialloc3", "iptr3"]


class Func:
    def __init__(self, name, res, args, overload_of=None, cpp_if=None):
        self.name, self.res, self.args = name, res, args
        self.overload_of = overload_of
        self.cpp_if = cpp_if     # macro name: the library function and its wrappers exist only `#ifdef <macro>`
        self.twice = False       # referenced twice with identical arguments inside one Fortran expression

    def is_template(self):
        return any(isinstance(a, TplArg) for a in self.args)

    def tagfor(self, r):
        """suffix of the library's trace line: which overload / instantiation was entered"""
        if self.is_template():
            return "/i" if r % 2 == 0 else "/d"
        return ("/" + self.overload_of) if self.overload_of else ""

    def generic_list(self):
        """fortran_generic entries (only the argument that varies is listed; Shroud copies the others)"""
        g = [a for a in self.args if hasattr(a, "gen")]
        if not g:
            return None
        return [{"decl": d % g[0].n, "function_suffix": sfx} for d, sfx in g[0].gen]

    def cfi_ok(self):
        """can this function be wrapped with F_CFI=true?  Since the /repo fixes b7285e7 (arguments), 97a7646 and 302a66e
        (results) every kind is: arguments and results without `_cfi` statements take the bufferify statements inside
        the CFI function.  Kept as a hook: return False here to exclude a function from the F_CFI configurations."""
        return True

    def cxx_only(self):
        return any(a.cxx_only for a in self.args) or (self.res != "void" and RESULTS[self.res][7]) or self.overload_of is not None


def gen_spec(r, cxx, nfunc):
    """type-directed description: every function gets 0-4 arguments of random kinds"""
    funcs = []
    kinds = ARG_KINDS_CXX if cxx else ARG_KINDS_C
    for i in range(nfunc):
        n = r.randrange(0, 5)
        args = [r.choice(kinds)("a%d%d" % (i, j)) for j in range(n)]
        res = r.choice(RES_CXX if cxx else RES_C)
        if cxx and r.random() < 0.3:
            nd = r.randrange(1, 3)
            for j in range(nd):
                args.append(DefInt("d%d%d" % (i, j), r.randrange(1, 90)))
        funcs.append(Func("fn%d" % i, res, args))
    if r.random() < 0.6:
        funcs += generic_funcs(cxx, "r")
    if cxx and r.random() < 0.7:
        i = len(funcs)
        funcs.append(Func("ov", "void", [IntVal("xi")], overload_of="i"))
        funcs.append(Func("ov", "void", [DblVal("xd")], overload_of="d"))
        if r.random() < 0.5:
            funcs.append(Func("ov", "void", [IntVal("xj"), CstrIn("xs")], overload_of="is"))
    return funcs


def generic_funcs(cxx, sfx):
    """two fortran_generic functions with scalar / rank(1) variants and the same C signature in one scope, and a
    fortran_generic function with a character argument (generic clone -> function -> bufferify / CFI clone)"""
    sk = StringIn if cxx else CstrIn
    fs = [Func("gsum" + sfx, "int", [GenArr("values" + sfx)]),
          Func("gtag" + sfx, "void", [sk("gn" + sfx), GenDbl("gv" + sfx)]),
          # same parameter names and C signature as gsum: only the library entry point differs
          Func("gmax" + sfx, "int", [GenArr("values" + sfx)])]
    if sfx:
        fs.append(Func("gout" + sfx, "cstr", [GenDbl("gw" + sfx), CstrInout("gc" + sfx)]))
    return fs


def counter_spec():
    """functions with hidden state (a call counter) and only by-value arguments, referenced twice with identical
    arguments inside one expression; built at -O2: a PURE interface would let gfortran drop one of the calls"""
    fs = [Func("tick", "int", [IntVal("ts")]), Func("tock", "int", []), Func("tack", "int", [DblVal("td"), BoolVal("tb")])]
    for f in fs:
        f.twice = True
    return fs


def cppif_spec():
    """generic names whose members carry preprocessor guards: first member guarded, last member guarded, all members
    under the same guard (the guard is then promoted to the interface block)"""
    return [Func("pk", "void", [IntVal("pi")], overload_of="i", cpp_if="HAVE_PK"),
            Func("pk", "void", [DblVal("pd")], overload_of="d"),
            Func("pk", "void", [IntVal("pj"), IntVal("pk2")], overload_of="ii"),
            Func("qk", "void", [DblVal("qd")], overload_of="d"),
            Func("qk", "void", [IntVal("qi")], overload_of="i", cpp_if="HAVE_PK"),
            Func("rk", "void", [IntVal("ri")], overload_of="i", cpp_if="HAVE_PK"),
            Func("rk", "void", [DblVal("rd")], overload_of="d", cpp_if="HAVE_PK"),
            Func("plain", "int", [IntVal("pp")])]


def fixed_spec(cxx):
    """one function per argument kind and result kind (always run)"""
    funcs = []
    kinds = ARG_KINDS_CXX if cxx else ARG_KINDS_C
    for i, k in enumerate(kinds):
        funcs.append(Func("k%d" % i, "void", [k("v%d" % i)]))
    for i, res in enumerate(dict.fromkeys(RES_CXX if cxx else RES_C)):
        if res != "void":
            funcs.append(Func("r%d" % i, res, [IntVal("q%d" % i)]))
    for i, res in enumerate(RES_DIM):
        funcs.append(Func("rd%d" % i, res, [DimArg("dq%d" % i)]))
    for i, res in enumerate(RES_DIM2):
        funcs.append(Func("re%d" % i, res, [DimArg("ea%d" % i), DimArg2("eb%d" % i)]))
    for i, res in enumerate(RES_DIM3):
        funcs.append(Func("rf%d" % i, res, [DimArg("fa%d" % i), DimArg2("fb%d" % i), DimArg3("fc%d" % i)]))
    funcs.append(Func("gvoid", "void", [GenVoid("addr")]))
    # void * next to a character argument: the bufferify / CFI clone carries the void * parameters too
    funcs.append(Func("vmix", "int", [VoidPtrConst("pvl"), CstrIn("pvs"), VoidPtr("pvr"), VoidPtrIntentIn("pvi")]))
    funcs.append(Func("arnk", "int", [AssumedRank("av")]))     # calls at rank 0, 1 and F_assumed_rank_max
    # pointer results that a bufferify / cfi function returns unchanged (raw char*, scalar native pointer)
    funcs.append(Func("rraw", "craw", [CstrOut("ro"), IntVal("rq")]))
    funcs.append(Func("rsca", "iscal", [CstrInout("ri")]))
    if cxx:
        funcs.append(Func("rscv", "iscal", [VecOut("rv1"), StringIn("rs1")]))
    # character arguments mixed with kinds that have no `_cfi` entry: with F_CFI=true these take the bufferify
    # statements inside the CFI function; same trace required as with F_CFI=false
    funcs.append(Func("mixp", "void", [CstrIn("ms"), PtrPtrOut("mp"), CstrOut("mo")]))
    funcs.append(Func("mixc", "int", [CharArrIn("mc"), CstrInout("mi")]))
    funcs.append(Func("mixr", "ialloc", [DimArg("md"), CstrIn("mr")]))
    funcs.append(Func("mixq", "iptr2", [DimArg("mq1"), DimArg2("mq2"), CstrOut("mq3")]))
    if cxx:
        funcs.append(Func("mixv", "void", [StringIn("vs"), VecOut("vo"), VecIn("vi")]))
        funcs.append(Func("mixs", "int", [VecStrIn("sv"), CstrIn("sc")]))
        funcs.append(Func("mixy", "vecres", [StringIn("ys"), CstrInout("yc")]))
        funcs.append(Func("mixw", "cstr", [VecInoutAlloc("wv"), StringOut("ws"), VecOutAlloc("wa")]))
    if cxx:
        funcs.append(Func("rvec", "vecres", [IntVal("qv")]))
    funcs += generic_funcs(cxx, "")
    if cxx:
        funcs.append(Func("dstr", "int", [StringIn("ds"), CstrOut("dc"), DefInt("e1", 5), DefInt("e2", 6)]))
        # template x string: instantiations reached through the generic name, each with a bufferify clone
        funcs.append(Func("tstr", "void", [TplArg("tv"), StringIn("ts"), CstrIn("tc")]))
        funcs.append(Func("ovs", "void", [StringIn("os1")], overload_of="s"))
        funcs.append(Func("ovs", "void", [IntVal("oi"), CstrIn("os2")], overload_of="is"))
    if cxx:
        funcs.append(Func("dflt", "int", [IntVal("p"), DefInt("d1", 11), DefInt("d2", 22)]))
        funcs.append(Func("ov", "void", [IntVal("xi")], overload_of="i"))
        funcs.append(Func("ov", "void", [DblVal("xd")], overload_of="d"))
    return funcs


# ------------------------------------------------------------------ emitters
def yaml_text(lib, funcs, cxx, options):
    decls = []
    for f in funcs:
        rt = "void" if f.res == "void" else RESULTS[f.res][0]
        attrs = "" if f.res == "void" else RESULTS[f.res][1]
        if "{dim}" in attrs:
            dn = [a.n for a in f.args if isinstance(a, DimArg)]
            attrs = attrs.format(dim=dn[0], dim2=dn[1] if len(dn) > 1 else "", dim3=dn[2] if len(dn) > 2 else "")
        decl = "%s %s(%s)%s" % (rt, f.name, ", ".join(a.yaml() for a in f.args) if f.args or cxx else "void", attrs)
        dd = {"decl": decl}
        if f.is_template():
            dd = {"decl": "template<typename T> " + decl, "cxx_template": [{"instantiation": "<int>"}, {"instantiation": "<double>"}]}
        if f.generic_list():
            dd["fortran_generic"] = f.generic_list()
        if f.cpp_if:
            dd["cpp_if"] = "ifdef " + f.cpp_if
        opts_f = {}
        for a in f.args:
            opts_f.update(getattr(a, "decl_options", {}))
        if opts_f:
            dd["options"] = opts_f
        if any(getattr(a, "needs_type_defines", False) for a in f.args):
            dd["fstatements"] = {"c": {"c_helper": "ShroudTypeDefines"}}   # SH_TYPE_ codes into types<lib>.h
        decls.append(dd)
    pre = []
    for f in funcs:
        for a in f.args:
            for y in getattr(a, "lib_yaml", []):
                if y not in pre:
                    pre.append(y)
    decls = pre + decls
    d = {"library": lib, "cxx_header": lib + (".hpp" if cxx else ".h"), "language": "c++" if cxx else "c",
         "options": dict({"wrap_python": False, "wrap_lua": False}, **options), "declarations": decls}
    return yaml.safe_dump(d, sort_keys=False)


def lib_sources(lib, funcs, cxx):
    hdr = ["#ifndef SUBJ_H", "#define SUBJ_H"]
    if cxx:
        hdr += ["#include <string>", "#include <vector>"]
    else:
        hdr += ["#include <stdbool.h>", "#include <stddef.h>"]
    seen_h = []
    for f in funcs:
        for a in f.args:
            h = getattr(a, "lib_header", None)
            if h and h[1 if cxx else 0] not in seen_h:
                seen_h.append(h[1 if cxx else 0])
    hdr += seen_h
    src = ['#include "%s"' % (lib + (".hpp" if cxx else ".h")), "#include <stdio.h>", "#include <string.h>"]
    if any(getattr(a, "needs_type_defines", False) for f in funcs for a in f.args):
        src.append('#include "types%s.h"' % lib)
    if not cxx:
        src.append("#include <stddef.h>")
    src.append("static const char *RS[] = {%s};" % ", ".join('"%s"' % s for s in RES_STR))
    src.append("static int RA[] = {%s};" % ", ".join(map(str, RA)))
    src.append("static const int VS[] = {%s};" % ", ".join(map(str, VSZ)))
    if cxx:
        src.append("static const std::string RSS[] = {%s};" % ", ".join('std::string("%s")' % s for s in RES_STR))
    if cxx:
        src += ['static void pv_(const char *n, int v) { printf("%si:%d", n, v); }',
                'static void pv_(const char *n, double v) { printf("%sd:%.17g", n, v); }',
                'static const char *tn_(int) { return "i"; }', 'static const char *tn_(double) { return "d"; }']
    for idx, f in enumerate(funcs):
        rt = "void" if f.res == "void" else RESULTS[f.res][2]
        params = ", ".join(a.cparam("cxx" if cxx else "c") for a in f.args) or ("" if cxx else "void")
        tpl = "template<typename T> " if f.is_template() else ""
        if f.cpp_if:
            hdr.append("#ifdef " + f.cpp_if)
            src.append("#ifdef " + f.cpp_if)
        hdr.append("%s%s %s(%s);" % (tpl, rt, f.name, params))
        if f.cpp_if:
            hdr.append("#endif")
        params_def = re.sub(r" = -?\d+", "", params)
        src.append("%s%s %s(%s)\n{" % (tpl, rt, f.name, params_def))
        src.append("  static int cnt = -1; cnt++;")
        if f.is_template():
            src.append('  printf("L %s/%%s", tn_(%s));' % (f.name, [a.n for a in f.args if isinstance(a, TplArg)][0]))
        else:
            src.append('  printf("L %s%s");' % (f.name, ("/" + f.overload_of) if f.overload_of else ""))
        for a in f.args:
            for st in a.body("cxx" if cxx else "c"):
                src.append("  " + st)
        src.append('  printf("\\n"); fflush(stdout);')
        if f.res != "void":
            src.append("  return %s;" % RESULTS[f.res][3])
        src.append("}")
        if f.is_template():
            for t in ("int", "double"):
                src.append("template %s %s<%s>(%s);" % (rt, f.name, t, params_def.replace("T ", t + " ", 1)))
        if f.cpp_if:
            src.append("#endif")
    hdr.append("#endif")
    return "\n".join(hdr) + "\n", "\n".join(src) + "\n"


HELPERS = """
subroutine pint(n, v)
  use iso_c_binding
  character(len=*) :: n
  integer(C_INT) :: v
  write(*,'(A,A,A,I0)', advance='no') ' ', n, '=i:', v
end subroutine
subroutine pdbl(n, v)
  use iso_c_binding
  character(len=*) :: n
  real(C_DOUBLE) :: v
  write(*,'(A,A,A,ES25.17E3)', advance='no') ' ', n, '=d:', v
end subroutine
subroutine plog(n, v)
  character(len=*) :: n
  logical :: v
  if (v) then
    write(*,'(A,A,A)', advance='no') ' ', n, '=b:1'
  else
    write(*,'(A,A,A)', advance='no') ' ', n, '=b:0'
  endif
end subroutine
subroutine pptr(n, v)
  use iso_c_binding
  character(len=*) :: n
  type(C_PTR) :: v
  if (c_associated(v)) then
    write(*,'(A,A,A)', advance='no') ' ', n, '=p:1'
  else
    write(*,'(A,A,A)', advance='no') ' ', n, '=p:0'
  endif
end subroutine
subroutine pstr(n, v)
  character(len=*) :: n, v
  write(*,'(A,A,A,A,A)', advance='no') ' ', n, '=s:[', v, ']'
end subroutine
subroutine pstrl(n, v)
  character(len=*) :: n, v
  write(*,'(A,A,A,I0,A,A,A)', advance='no') ' ', n, '=s:', len(v), '[', v, ']'
end subroutine
subroutine parr(n, v)
  use iso_c_binding
  character(len=*) :: n
  integer(C_INT) :: v(:)
  integer :: i
  write(*,'(A,A,A)', advance='no') ' ', n, '=a:'
  do i = 1, size(v)
    write(*,'(I0,A)', advance='no') v(i), ','
  enddo
end subroutine
"""


def rounds_of(f):
    return max([a.nvals for a in f.args] + [4 if f.res != "void" else 1])


def call_plan(funcs):
    """[(func index, round, number of trailing defaults omitted)]"""
    plan = []
    for i, f in enumerate(funcs):
        ndef = sum(1 for a in f.args if isinstance(a, DefInt))
        for r in range(rounds_of(f)):
            plan.append((i, r, (r % (ndef + 1)) if ndef else 0))
    return plan


def driver_source(lib, funcs):
    decl, body = [], []
    seen = set()
    for i, f in enumerate(funcs):
        for a in f.args:
            for d in a.fdecl():
                if d not in seen:
                    seen.add(d)
                    decl.append(d)
    res_decl = {}
    for i, f in enumerate(funcs):
        if f.res != "void":
            d = RESULTS[f.res][4].replace("rv", "rv_%s" % f.res)
            res_decl[d] = True
    decl += list(res_decl)
    for i, r, omit in call_plan(funcs):
        f = funcs[i]
        vis = [a for a in f.args if a.visible]
        if omit:
            vis = vis[:len(vis) - omit]
        if f.cpp_if:
            body.append("#ifdef " + f.cpp_if)
        for a in vis:
            body += a.fset(r)
        actuals = ", ".join(a.factual(r) for a in vis)
        if f.res == "void":
            body.append("call %s(%s)" % (f.name, actuals))
        elif f.twice:
            body.append("rv_%s = %s(%s) + %s(%s)" % (f.res, f.name, actuals, f.name, actuals))
        else:
            op = RESULTS[f.res][8] if len(RESULTS[f.res]) > 8 else "="
            body.append("rv_%s %s %s(%s)" % (f.res, op, f.name, actuals))
        body.append("write(*,'(A)', advance='no') 'F %s'" % f.name)
        if f.res != "void":
            for st in RESULTS[f.res][5].split("; "):
                body.append(re.sub(r"\brv\b", "rv_%s" % f.res, st).replace("'rv_%s" % f.res, "'rv"))
        for a in vis:
            body += a.fprint()
        body.append("write(*,'(A)') ''")
        body.append("flush(6)")
        if f.cpp_if:
            body.append("#endif")
    src = ["module drv_helpers", "contains", HELPERS, "end module drv_helpers", "program drv", "use iso_c_binding",
           "use %s_mod" % lib, "use drv_helpers", "implicit none"] + decl + body + ["end program drv"]
    return "\n".join(src) + "\n"


def expected_trace(funcs, macros=()):
    out = []
    cnts = {}
    for i, r, omit in call_plan(funcs):
        f = funcs[i]
        if f.cpp_if and f.cpp_if not in macros:
            continue
        cnt = cnts.get(i, -1) + 1
        cnts[i] = cnt
        args = list(f.args)
        nargs = len(args) - omit
        lt, ft = [], []
        for j, a in enumerate(args):
            if j < nargs:
                lt += a.lib_tokens(r, cnt, None)
                if a.visible:
                    ft += a.f_tokens(r, cnt, None)
            else:
                lt += ["%s=i:%d" % (a.n, a.default)]   # C++ supplies the default value
            if isinstance(a, HiddenOut):
                lt += ["%s=hidden" % a.n]
        out.append(" ".join(["L %s%s" % (f.name, f.tagfor(r))] + lt))
        if f.twice:
            # the function is entered once per reference, whatever the optimisation level; an int result 40 + cnt each
            cnt2 = cnt + 1
            cnts[i] = cnt2
            out.append(" ".join(["L %s%s" % (f.name, f.tagfor(r))] + lt))
            out.append(" ".join(["F %s" % f.name, "rv=i:%d" % (40 + cnt + 40 + cnt2)] + ft))
            continue
        fr = [RESULTS[f.res][6](cnt)] if f.res != "void" else []
        out.append(" ".join(["F %s" % f.name] + fr + ft))
    return out


_NUM = re.compile(r"=d:\s*(\S+)")


def canon(line):
    """doubles are compared as values"""
    def rep(m):
        try:
            return "=d:%r" % float(m.group(1).replace("D", "E").replace("d", "e"))
        except ValueError:
            return m.group(0)
    return _NUM.sub(rep, line.rstrip("\n"))


# ------------------------------------------------------------------ build and run
_ASAN = {}


def asan_flags(work):
    """-fsanitize=address if a mixed Fortran/C++ program links and runs with it here"""
    if "f" in _ASAN:
        return _ASAN["f"]
    d = os.path.join(work, "asanprobe")
    os.makedirs(d, exist_ok=True)
    open(os.path.join(d, "a.cpp"), "w").write('extern "C" int q(void) { return 3; }\n')
    open(os.path.join(d, "b.f90"), "w").write(
        "program p\ninterface\nfunction q() bind(C) result(r)\nuse iso_c_binding\ninteger(C_INT) :: r\nend function\nend interface\nprint *, q()\nend program\n")
    ok = False
    try:
        a = subprocess.run(["g++", "-fsanitize=address", "-c", "a.cpp"], cwd=d, capture_output=True, timeout=120)
        b = subprocess.run(["gfortran", "-fsanitize=address", "b.f90", "a.o", "-lstdc++", "-o", "p"], cwd=d, capture_output=True, timeout=120)
        c = subprocess.run(["./p"], cwd=d, capture_output=True, timeout=60, env=dict(os.environ, ASAN_OPTIONS="detect_leaks=0"))
        ok = a.returncode == 0 and b.returncode == 0 and c.returncode == 0 and b"3" in c.stdout
    except Exception:
        ok = False
    _ASAN["f"] = ["-fsanitize=address", "-fno-omit-frame-pointer"] if ok else []
    return _ASAN["f"]


def build_and_run(d, lib, cxx, san, macros=(), opt="-O0"):
    """compile everything in d; returns (stage, ok, output)"""
    cc = "g++" if cxx else "gcc"
    ext = ".cpp" if cxx else ".c"
    srcs = [f for f in sorted(os.listdir(d)) if f.endswith(ext)]
    fsrcs = [f for f in sorted(os.listdir(d)) if f.endswith(".f") and f.startswith("wrapf")]
    defs = ["-D" + m for m in macros]
    cmds = [[cc, "-g", opt, "-I."] + defs + san + ["-c"] + srcs]
    # module order: wrappers, then driver
    cmds.append(["gfortran", "-g", opt, "-ffree-form", "-ffree-line-length-none", "-cpp"] + defs + san + ["-c"] + fsrcs + ["driver.f90"])
    objs = [s[:-len(ext)] + ".o" for s in srcs] + [f[:-2] + ".o" for f in fsrcs] + ["driver.o"]
    cmds.append(["gfortran"] + san + objs + (["-lstdc++"] if cxx else []) + ["-o", "drv"])
    for c in cmds:
        p = subprocess.run(c, cwd=d, stdout=subprocess.PIPE, stderr=subprocess.STDOUT, text=True, timeout=600)
        if p.returncode != 0:
            return "compile", False, " ".join(c[:3]) + " ...\n" + p.stdout[-3000:]
    p = subprocess.run(["./drv"], cwd=d, stdout=subprocess.PIPE, stderr=subprocess.STDOUT, text=True, timeout=120,
                       env=dict(os.environ, ASAN_OPTIONS="detect_leaks=0:abort_on_error=0"), errors="replace")
    return "run", p.returncode == 0, p.stdout


def generate(d, lib, funcs, cxx, options):
    """write YAML, library, driver into d and run real Shroud (fresh process, so the configurations are independent)"""
    os.makedirs(d, exist_ok=True)
    y = yaml_text(lib, funcs, cxx, options)
    open(os.path.join(d, lib + ".yaml"), "w").write(y)
    h, s = lib_sources(lib, funcs, cxx)
    open(os.path.join(d, lib + (".hpp" if cxx else ".h")), "w").write(h)
    open(os.path.join(d, "subject" + (".cpp" if cxx else ".c")), "w").write(s)
    open(os.path.join(d, "driver.f90"), "w").write(driver_source(lib, funcs))
    rc, out = shroudrun.run_fresh([os.path.join(d, lib + ".yaml")], d)
    return y, rc, out


def first_diff(exp, got):
    for i in range(max(len(exp), len(got))):
        e = exp[i] if i < len(exp) else "<missing>"
        g = got[i] if i < len(got) else "<missing>"
        if canon(e) != canon(g):
            return i, e, g
    return None


# which modelled kind (Props/C01.lean `Kind`) an oracle argument class / result executes
KIND_OF = {
    "IntVal": ["native"], "DblVal": ["native"], "DefInt": ["native"], "DimArg": ["native"], "DimArg2": ["native"], "DimArg3": ["native"],
    "IntOut": ["native"], "IntInout": ["native"], "IntRefOut": ["native"], "HiddenOut": ["native"], "ArrIn": ["native"],
    "ArrInout": ["native"], "ArrOut": ["native"], "AssumedRank": ["native"], "EnumVal": ["native"],
    "StructVal": ["structArg"], "StructPtrIn": ["structArg"], "StructPtrInout": ["structArg"], "StructRefIn": ["structArg"], "StructRefInout": ["structArg"], "GenDbl": ["native"], "GenArr": ["native"], "TplArg": ["native"], "GenVoid": ["native"],
    "BoolVal": ["boolIn"], "BoolOut": ["boolOut"], "BoolInout": ["boolInout"],
    "CstrIn": ["charIn"], "CstrOut": ["charOut"], "CstrInout": ["charInout"], "ImplText": ["charInout"],
    "StringIn": ["stringIn"], "StringOut": ["stringOut"], "StringInout": ["stringInout"],
    "ArrAllocOut": ["nativeOutAlloc"], "ArrAllocOutN": ["nativeOutAlloc"],
    "VecIn": ["vectorIn"], "VecOut": ["vectorOut"], "VecOutAlloc": ["vectorOutAlloc"], "VecInout": ["vectorInout"],
    "VecInoutAlloc": ["vectorInoutAlloc"], "PtrPtrOut": ["ptrPtrOut"], "PtrPtrOutN": ["ptrPtrOut"], "PtrPtrOut3": ["ptrPtrOut"],
    "CharArrIn": ["charArrayIn"], "VecStrIn": ["vecStrIn"],
    "VoidPtr": ["voidPtr"], "VoidPtrConst": ["voidPtr"], "VoidPtrIntentIn": ["voidPtr"], "VoidPtrConstIntentIn": ["voidPtr"],
    "VoidPtrExpr": ["voidPtr"],
}
KIND_OF_RES = {"craw": "native", "iscal": "native", "int": "native", "double": "native", "bool": "boolResult(default block)", "chr": "charScalarResult", "cstr_len": "charResult",
               "string_len": "stringResult", "vecres": "vectorResultAlloc", "iptr": "resultPointer", "ialloc": "resultAlloc",
               "iptr2": "resultPointer", "ialloc2": "resultAlloc", "iptr3": "resultPointer", "ialloc3": "resultAlloc",
               "cstr": "charResultAlloc", "string": "stringValResultAlloc", "string_ref": "stringResultAlloc"}
MODELLED_KINDS = ["boolIn", "boolOut", "boolInout", "charIn", "charOut", "charInout", "stringIn", "stringOut", "stringInout",
                  "charResult", "stringResult", "charScalarResult", "native", "nativeOutAlloc", "vectorIn", "vectorOut",
                  "vectorOutAlloc", "vectorInout", "vectorInoutAlloc", "vectorResult", "vectorResultAlloc", "ptrPtrOut",
                  "resultPointer", "resultAlloc", "charArrayIn", "charResultAlloc", "stringResultAlloc", "stringValResultAlloc",
                  "vecStrIn", "vecStrOut", "vecStrInout", "structArg", "voidPtr"]
import collections as _collections
KIND_RUNS = _collections.Counter()   # kind -> number of (function, configuration) executions whose trace matched


def _count_kinds(funcs, cfi):
    for f in funcs:
        for a in f.args:
            for k in KIND_OF.get(type(a).__name__, []):
                KIND_RUNS["%s/%s" % (k, "cfi" if cfi else "buf")] += 1
        if f.res != "void" and f.res in KIND_OF_RES:
            KIND_RUNS["%s/%s" % (KIND_OF_RES[f.res], "cfi" if cfi else "buf")] += 1


def check_library(ctx, work, tag, lib, funcs, cxx, configs, workers=8, force=False, macros=(), opt="-O0"):
    """configs: list of (F_CFI, debug).  Returns number of configurations run."""
    exp = expected_trace(funcs, macros)
    san = asan_flags(work)
    jobs = []
    for cfi, dbg in configs:
        d = os.path.join(work, "%s-%s-%d%d" % (tag, "cxx" if cxx else "c", int(cfi), int(dbg)))
        jobs.append((d, cfi, dbg))

    funcs_cfi = [f for f in funcs if force or f.cfi_ok()]
    exp_cfi = expected_trace(funcs_cfi, macros)
    all_funcs, exp_all = funcs, exp

    def one(job):
        d, cfi, dbg = job
        y, rc, out = generate(d, lib, funcs_cfi if cfi else all_funcs, cxx, {"F_CFI": bool(cfi), "debug": bool(dbg)})
        if rc != 0:
            return job, y, "shroud", False, out[-2000:]
        stage, ok, out = build_and_run(d, lib, cxx, san, macros, opt)
        return job, y, stage, ok, out

    with ThreadPoolExecutor(max_workers=workers) as ex:
        results = list(ex.map(one, jobs))
    for (d, cfi, dbg), y, stage, ok, out in results:
        ctx.count(1)
        cfgname = {"language": "c++" if cxx else "c", "F_CFI": bool(cfi), "debug": bool(dbg), "defined_macros": list(macros), "optimisation": opt}
        if stage != "run":
            # which function?  C05 owns compilability; here it is reported because the call cannot be made at all
            fnames = sorted({f.name for f in (funcs_cfi if cfi else all_funcs)}, key=len, reverse=True)
            m = re.search(r"(?:call |= |‘|')(%s)\b" % "|".join(map(re.escape, fnames)), out or "") or \
                re.search(r"\b(%s)\b" % "|".join(map(re.escape, fnames)), out or "")
            fl = funcs_cfi if cfi else all_funcs
            signame = m.group(1) if m else (fl[0].name if len(fl) == 1 else None)
            key = "c01:%s-fails:%s:%s" % (stage, "cxx" if cxx else "c", _sig_of(fl, signame) if signame else "?")
            ctx.fail(key, "generated wrappers do not %s under %s: %s" % (
                "compile/link" if stage == "compile" else "generate", cfgname, (out or "")[-600:]),
                {"yaml": y, "config": cfgname, "function": m.group(0) if m else None, "values": None, "output": (out or "")[-1500:]})
            continue
        got = [l for l in out.split("\n") if l.startswith("L ") or l.startswith("F ")]
        exp = exp_cfi if cfi else exp_all
        funcs = funcs_cfi if cfi else all_funcs
        df = first_diff(exp, got)
        if df is None and ok:
            ctx.nontrivial((tag, cxx, cfi, dbg))
            _count_kinds(funcs, cfi)
            continue
        if df is None:
            ctx.fail("c01:runtime-error:%s" % tag, "driver exits with an error (sanitizer / runtime) under %s: %s" % (cfgname, out[-800:]),
                     {"yaml": y, "config": cfgname, "function": None, "values": None, "output": out[-3000:]})
            continue
        i, e, g = df
        fname = (e if e != "<missing>" else g).split(" ")[1].split("/")[0]
        sig = _sig_of(funcs, fname)
        side = "library received" if e.startswith("L ") else "Fortran caller holds"
        extra = ""
        if not ok:
            extra = " (driver aborted: %s)" % out[-300:].replace("\n", " | ")
        ctx.fail("c01:trace:%s:%s:cfi=%d" % ("cxx" if cxx else "c", sig, int(cfi)),
                 "%s differs from the declaration's meaning under %s: expected `%s`, got `%s`%s" % (side, cfgname, canon(e), canon(g), extra),
                 {"yaml": y, "config": cfgname, "function": fname, "values": {"expected": canon(e), "got": canon(g), "call_index": i // 2}})
    return len(jobs)


def _sig_of(funcs, fname):
    for f in funcs:
        if f.name == fname:
            return "%s(%s)->%s" % ("ov" if f.overload_of else "f", ",".join(type(a).__name__ for a in f.args), f.res)
    return fname
