"""Shared machinery for ./check: Lean build + audit, driver I/O, evidence,
known findings, replay files, deterministic randomness."""
from __future__ import annotations

import fcntl
import hashlib
import json
import os
import random
import re
import shutil
import subprocess
import sys
import tempfile
import time

VERIF = os.path.dirname(os.path.dirname(os.path.abspath(__file__)))
REPO = os.environ.get("SHROUD_REPO", "/repo")
LEAN = os.path.join(VERIF, "lean")
BIN = os.path.join(LEAN, ".lake", "build", "bin")
EVIDENCE = os.path.join(VERIF, "evidence")
REPLAYS = os.path.join(VERIF, "replays")
CORPUS = os.path.join(VERIF, "corpus")
LOCK = os.path.join(VERIF, ".build.lock")
ALLOWED_AXIOMS = {"propext", "Classical.choice", "Quot.sound"}
FORBIDDEN = re.compile(
    r"\bsorry\b|\badmit\b|^\s*axiom\s|native_decide|bv_decide|implemented_by|\bunsafe\s|maxHeartbeats\s+0\b"
)

if REPO not in sys.path:
    sys.path.insert(0, REPO)


def seed() -> int:
    try:
        return int(os.environ.get("VERIF_SEED", "0"))
    except ValueError:
        return 0


def rng(tag: str = "") -> random.Random:
    h = hashlib.sha256(("%d:%s" % (seed(), tag)).encode()).digest()
    return random.Random(int.from_bytes(h[:8], "big"))


# ---------------------------------------------------------------- string codec
def enc(s: str) -> str:
    return ",".join(str(ord(c)) for c in s) if s else "-"


def dec(t: str) -> str:
    return "" if t == "-" else "".join(chr(int(x)) for x in t.split(","))


def encs(ls) -> str:
    return ";".join(enc(s) for s in ls) if ls else "~"


def decs(t: str):
    return [] if t == "~" else [dec(x) for x in t.split(";")]


# ---------------------------------------------------------------- lean
class BuildResult:
    def __init__(self):
        self.ok = True
        self.log = ""
        self.failed_targets = []
        self.axioms = {}  # theorem -> list of axioms
        self.forbidden_hits = []
        self.wall = 0.0


def _strip_comments(text: str) -> str:
    # remove /- ... -/ (nested) and -- line comments
    out = []
    i, depth, n = 0, 0, len(text)
    while i < n:
        if text.startswith("/-", i):
            depth += 1
            i += 2
        elif depth and text.startswith("-/", i):
            depth -= 1
            i += 2
        elif depth:
            if text[i] == "\n":
                out.append("\n")
            i += 1
        elif text.startswith("--", i):
            while i < n and text[i] != "\n":
                i += 1
        else:
            out.append(text[i])
            i += 1
    return "".join(out)


def scan_forbidden(paths):
    hits = []
    for p in paths:
        try:
            src = open(p).read()
        except OSError:
            continue
        for ln, line in enumerate(_strip_comments(src).split("\n"), 1):
            if FORBIDDEN.search(line):
                hits.append("%s:%d: %s" % (os.path.relpath(p, VERIF), ln, line.strip()))
    return hits


def lean_sources():
    res = []
    for root, _d, files in os.walk(os.path.join(LEAN, "ShroudVerif")):
        for f in files:
            if f.endswith(".lean"):
                res.append(os.path.join(root, f))
    for root, _d, files in os.walk(os.path.join(LEAN, "Driver")):
        for f in files:
            if f.endswith(".lean"):
                res.append(os.path.join(root, f))
    return sorted(res)


def module_closure(modules):
    """Lean source files of `modules` and of everything they import from this project."""
    seen, todo, files = set(), list(modules), []
    while todo:
        m = todo.pop()
        if m in seen:
            continue
        seen.add(m)
        path = os.path.join(LEAN, *m.split(".")) + ".lean"
        if not os.path.exists(path):
            continue
        files.append(path)
        for ln in open(path):
            mm = re.match(r"\s*(?:public\s+)?import\s+((?:ShroudVerif|Driver)[\w.]*)", ln)
            if mm:
                todo.append(mm.group(1))
    return sorted(files)


def lake_build(targets, timeout=3000) -> BuildResult:
    """Build lake targets under an exclusive lock."""
    br = BuildResult()
    t0 = time.time()
    os.makedirs(os.path.dirname(LOCK), exist_ok=True)
    with open(LOCK, "w") as lk:
        fcntl.flock(lk, fcntl.LOCK_EX)
        try:
            p = subprocess.run(
                ["lake", "build"] + list(targets),
                cwd=LEAN, stdout=subprocess.PIPE, stderr=subprocess.STDOUT,
                text=True, timeout=timeout,
            )
            br.log = p.stdout
            br.ok = p.returncode == 0
        except subprocess.TimeoutExpired as e:
            br.ok = False
            br.log = "TIMEOUT\n" + (e.stdout or "")
        finally:
            fcntl.flock(lk, fcntl.LOCK_UN)
    if not br.ok:
        br.failed_targets = re.findall(r"^✖ \[\d+/\d+\] \w+ (\S+)", br.log, re.M)
    br.wall = time.time() - t0
    return br


def print_axioms(module: str, theorems, timeout=900):
    """Run `#print axioms` for each theorem (names as written in Lean).
    Returns dict theorem -> list of axioms, or None for a theorem that does not
    elaborate."""
    res = {}
    if not theorems:
        return res
    src = "import %s\n" % module + "".join("#print axioms %s\n" % t for t in theorems)
    with tempfile.NamedTemporaryFile("w", suffix=".lean", dir=LEAN, delete=False) as f:
        f.write(src)
        path = f.name
    try:
        p = subprocess.run(["lake", "env", "lean", path], cwd=LEAN, stdout=subprocess.PIPE,
                           stderr=subprocess.STDOUT, text=True, timeout=timeout)
        out = p.stdout
    finally:
        os.unlink(path)
    # messages: "'name' depends on axioms: [a, b]" or "'name' does not depend on any axioms"
    flat = re.sub(r"\s+", " ", out)
    for t in theorems:
        m = re.search(r"'%s' depends on axioms: \[([^\]]*)\]" % re.escape(t), flat)
        if m:
            res[t] = [a.strip() for a in m.group(1).split(",") if a.strip()]
            continue
        if re.search(r"'%s' does not depend on any axioms" % re.escape(t), flat):
            res[t] = []
            continue
        res[t] = None
    return res


class Driver:
    """Batch interface to the compiled Lean model driver."""

    def __init__(self, name="drv_lines"):
        self.name = name
        self.path = os.path.join(BIN, name)

    def available(self):
        return os.path.exists(self.path)

    def run(self, lines, timeout=1800):
        if not lines:
            return []
        data = "\n".join(lines) + "\n"
        p = subprocess.run([self.path], input=data, stdout=subprocess.PIPE,
                           stderr=subprocess.PIPE, text=True, timeout=timeout)
        if p.returncode != 0:
            raise RuntimeError("driver failed: rc=%s %s" % (p.returncode, p.stderr[-2000:]))
        out = p.stdout.split("\n")
        if out and out[-1] == "":
            out.pop()
        if len(out) != len(lines):
            raise RuntimeError("driver returned %d lines for %d requests" % (len(out), len(lines)))
        return out


# ---------------------------------------------------------------- known findings
def load_known(prop):
    path = os.path.join(VERIF, "known_findings.json")
    try:
        data = json.load(open(path))
    except (OSError, ValueError):
        return []
    return [f for f in data.get("findings", []) if f.get("property") == prop and f.get("status") == "open"]


# ---------------------------------------------------------------- scratch
def scratch(prefix="shroudverif-"):
    return tempfile.mkdtemp(prefix=prefix, dir=os.environ.get("TMPDIR", "/tmp"))


def rmtree(path):
    shutil.rmtree(path, ignore_errors=True)


# ---------------------------------------------------------------- context
class Ctx:
    """Per-run bookkeeping; produces the evidence file, replays and exit code."""

    def __init__(self, prop, tier, level):
        self.prop = prop
        self.tier = tier
        self.level = level
        self.t0 = time.time()
        self.cov = {
            "evaluations": 0, "distinct_nontrivial": 0, "rule": "", "samples": [],
            "obligations": 0, "discharged": 0, "checker_cmd": "", "trusted_base": [],
        }
        self.assumptions = []
        self.broken = []        # list of (kind, name, detail)  proof/tie breakages
        self.failing = []       # list of dicts: concrete failing inputs on the implementation
        self.known_seen = []
        self.known = load_known(prop)
        self.notes = {}
        self._nontrivial = set()

    # --- coverage bookkeeping
    def count(self, n=1):
        self.cov["evaluations"] += n

    def nontrivial(self, key):
        self._nontrivial.add(key if isinstance(key, (str, int, tuple)) else repr(key))

    def sample(self, s, cap=12):
        if len(self.cov["samples"]) < cap:
            self.cov["samples"].append(s)

    def note(self, k, v):
        self.notes[k] = v

    # --- results
    def proof_broken(self, name, detail):
        self.broken.append(("theorem", name, detail[-4000:] if isinstance(detail, str) else detail))

    def tie_broken(self, name, detail):
        self.broken.append(("correspondence", name, detail))

    def fail(self, key, what, replay):
        """A concrete failing input on the real implementation.  `key` identifies it for
        known_findings matching."""
        for k in self.known:
            if k.get("key") == key or (k.get("key_prefix") and str(key).startswith(k["key_prefix"])):
                if not any(x[0] == k.get("key", k.get("key_prefix")) for x in self.known_seen):
                    self.known_seen.append((k.get("key", k.get("key_prefix")), k.get("what", what)))
                return False
        self.failing.append({"key": key, "what": what, "replay": replay})
        return True

    # --- lean
    def lean(self, modules, theorems_by_module, extra_targets=("drv_lines",)):
        """Build property modules + driver, audit axioms.  theorems_by_module:
        {module: [theorem names]} are the proof obligations of this property."""
        targets = list(modules) + list(extra_targets)
        br = lake_build(targets)
        self.note("lake_build_s", round(br.wall, 1))
        total = sum(len(v) for v in theorems_by_module.values())
        self.cov["obligations"] = total
        self.cov["checker_cmd"] = "cd lean && lake build %s && lake env lean <#print axioms of every property theorem>" % " ".join(targets)
        discharged = 0
        if not br.ok:
            tail = br.log[-3000:]
            self.proof_broken("lake build " + " ".join(br.failed_targets or targets), tail)
            # which modules failed?
            failed = set(br.failed_targets)
        else:
            failed = set()
        axioms_seen = set()
        for mod, thms in theorems_by_module.items():
            if mod in failed or (not br.ok and not failed):
                continue
            # a module depending on a failed one cannot be audited either
            ax = print_axioms(mod, thms)
            for t in thms:
                a = ax.get(t)
                if a is None:
                    self.proof_broken(t, "theorem does not elaborate (module %s)" % mod)
                elif not set(a) <= ALLOWED_AXIOMS:
                    self.proof_broken(t, "depends on non-standard axioms: %s" % a)
                else:
                    discharged += 1
                    axioms_seen |= set(a)
        hits = scan_forbidden(module_closure(list(theorems_by_module.keys()) + list(modules)))
        if hits:
            self.proof_broken("source-scan", "\n".join(hits))
        # thorough tier: independent re-check of the compiled property modules
        if self.tier == "thorough" and br.ok:
            t0 = time.time()
            try:
                p = subprocess.run(["lake", "env", "leanchecker"] + list(theorems_by_module.keys()), cwd=LEAN,
                                   stdout=subprocess.PIPE, stderr=subprocess.STDOUT, text=True, timeout=3000)
                self.note("leanchecker", {"rc": p.returncode, "wall_s": round(time.time() - t0, 1), "tail": p.stdout[-300:]})
                if p.returncode != 0:
                    self.proof_broken("leanchecker", p.stdout[-2000:])
            except subprocess.TimeoutExpired:
                self.note("leanchecker", "timeout")
        self.cov["discharged"] = discharged
        self.cov["axioms_seen"] = sorted(axioms_seen)
        self.cov["theorems"] = [t for v in theorems_by_module.values() for t in v]
        return br.ok and not hits

    # --- finish
    def finish(self):
        os.makedirs(EVIDENCE, exist_ok=True)
        os.makedirs(REPLAYS, exist_ok=True)
        self.cov["distinct_nontrivial"] = len(self._nontrivial)
        lines = []
        rc = 0
        for k, what in self.known_seen:
            lines.append("KNOWN-FINDING: property=%s %s" % (self.prop, what))
        viol = 0
        if self.failing:
            f = self.failing[0]
            h = hashlib.sha1(json.dumps(f["key"], sort_keys=True, default=str).encode()).hexdigest()[:10]
            path = os.path.join(REPLAYS, "%s-%s.json" % (self.prop, h))
            json.dump({"property": self.prop, "kind": "failing-input", "failing": self.failing[:20],
                       "broken": [list(b) for b in self.broken][:10]}, open(path, "w"), indent=1, default=str)
            lines.append("VIOLATION property=%s replay=%s" % (self.prop, path))
            viol = len(self.failing)
            rc = 1
        elif self.broken:
            h = hashlib.sha1(json.dumps([b[1] for b in self.broken], default=str).encode()).hexdigest()[:10]
            path = os.path.join(REPLAYS, "%s-broken-%s.json" % (self.prop, h))
            json.dump({"property": self.prop, "kind": "no-failing-input-found",
                       "no_longer_checks": [{"kind": b[0], "name": b[1], "detail": b[2]} for b in self.broken]},
                      open(path, "w"), indent=1, default=str)
            lines.append("VIOLATION property=%s replay=%s no-failing-input-found" % (self.prop, path))
            viol = 1
            rc = 1
        ev = {
            "property_id": self.prop,
            "tier": self.tier,
            "seed": seed(),
            "level": self.level,
            "coverage": dict(self.cov, **{"notes": self.notes}),
            "assumptions": self.assumptions,
            "wall_s": round(time.time() - self.t0, 2),
            "violations": viol,
            "known_findings_seen": [k for k, _ in self.known_seen],
            "broken": [{"kind": b[0], "name": b[1]} for b in self.broken],
        }
        json.dump(ev, open(os.path.join(EVIDENCE, "%s.json" % self.prop), "w"), indent=1, default=str)
        for l in lines:
            print(l)
        print("%s %s tier=%s seed=%d obligations=%d discharged=%d evaluations=%d nontrivial=%d wall=%.1fs" % (
            self.prop, "FAIL" if rc else "ok", self.tier, seed(), self.cov["obligations"],
            self.cov["discharged"], self.cov["evaluations"], self.cov["distinct_nontrivial"],
            time.time() - self.t0))
        return rc
