"""Regenerates MANIFEST.json from the table below (run after adding a property)."""
import json
import os

HERE = os.path.dirname(os.path.dirname(os.path.abspath(__file__)))

CHECKS = {
    "C13": dict(
        category="proof",
        text="Lean 4 theorems over a model of util.write_continue/write_lines (text preservation, grouping of whole parts "
             "per physical line, break points only at TAB/FF, marker on every broken line, length bound 'fits or carries at most "
             "one part', directive semantics, totality) for all lines/lengths/indents; the model is tied to util.py on every run by "
             "differential correspondence through the compiled Lean driver; an implementation-only oracle searches for failing inputs.",
        design="3 C13",
        note="Trusted: Lean kernel (axioms propext, Classical.choice, Quot.sound only); the hand-written model, validated only on "
             "generated inputs (exhaustive short strings over the directive alphabet + seeded random lines); Python whitespace "
             "modelled on ASCII+U+0085/U+00A0. The 132-column consequence for real outputs is a corpus measurement (thorough tier).",
        technique="Lean 4 proof by induction over the part list + differential correspondence model/implementation",
    ),
}

NOT_APPLICABLE = [
]


def main():
    props = [json.loads(l)["id"] for l in open(os.path.join(HERE, "properties.jsonl"))]
    checks = []
    for pid in props:
        if pid not in CHECKS:
            continue
        c = CHECKS[pid]
        checks.append({
            "property_id": pid,
            "quick_cmd": "./check %s --tier quick" % pid,
            "thorough_cmd": "./check %s --tier thorough" % pid,
            "evidence_file": "evidence/%s.json" % pid,
            "replay_cmd_template": "./check %s --replay {path}" % pid,
            "engine": "lean-model+correspondence",
            "level_claimed": {"category": c["category"], "text": c["text"], "design_ref": "DESIGN.md section " + c["design"]},
            "level_note": c["note"],
            "technique": c["technique"],
        })
    na = list(NOT_APPLICABLE)
    claimed = {c["property_id"] for c in checks}
    listed = {n["property_id"] for n in na}
    for pid in props:
        if pid not in claimed and pid not in listed:
            na.append({"property_id": pid, "reason": "not yet claimed: machinery for this property is not built in the committed tree (see DESIGN.md section 3 for the plan)"})
    m = {
        "version": 1,
        "setup_cmd": "./setup.sh",
        "hooks": {
            "guard": "VSOCH_SHROUD_VERIF",
            "enable": "no source hooks are used: observation is by in-process monkey-patching and the JSON dump; the guard name is reserved",
            "baseline_off_cmd": "cd /repo && /venv/bin/python -m pytest -ra -q -p no:cacheprovider --timeout=900 --continue-on-collection-errors",
            "source_commits": [],
            "add_only": True,
        },
        "engines": [
            {"name": "lean-model+correspondence", "path": "lean/", "serves_properties": sorted(claimed),
             "kind_free_text": "Lean 4 models and theorems (lake project ShroudVerif), compiled line-protocol driver, Python correspondence harnesses and implementation-level oracles under tools/"},
        ],
        "checks": checks,
        "notes": "Single entry point ./check <Cnn> --tier quick|thorough. Exit 0 held, 1 violation (VIOLATION line), 2 machinery error/timeout.",
        "not_applicable": na,
    }
    json.dump(m, open(os.path.join(HERE, "MANIFEST.json"), "w"), indent=1)


if __name__ == "__main__":
    main()
