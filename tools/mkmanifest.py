"""Regenerates MANIFEST.json from the table below (run after adding a property)."""
import json
import os

HERE = os.path.dirname(os.path.dirname(os.path.abspath(__file__)))

import importlib
import sys

sys.path.insert(0, HERE)


def load_checks():
    """Each tools/props/cNN.py that defines MANIFEST = dict(category, text, design, note, technique) is claimed."""
    res = {}
    ready = set(open(os.path.join(HERE, "tools", "ready.txt")).read().split())
    pdir = os.path.join(HERE, "tools", "props")
    for f in sorted(os.listdir(pdir)):
        if f.startswith("c") and f.endswith(".py") and f[:-3].upper() in ready:
            mod = importlib.import_module("tools.props." + f[:-3])
            if getattr(mod, "MANIFEST", None):
                res[f[:-3].upper()] = mod.MANIFEST
    return res


NOT_APPLICABLE = [
]


def main():
    props = [json.loads(l)["id"] for l in open(os.path.join(HERE, "properties.jsonl"))]
    CHECKS = load_checks()
    checks = []
    for pid in props:
        if pid not in CHECKS:
            continue
        c = CHECKS[pid]
        checks.append({
            "property_id": pid,
            "quick_cmd": "./check %s --tier quick" % pid,
            "thorough_cmd": "./check %s --tier thorough" % pid,
            "evidence_file": "evidence/%s.json" % pid,
            "replay_cmd_template": "./check %s --replay {path}" % pid,
            "engine": "lean-model+correspondence",
            "level_claimed": {"category": c["category"], "text": c["text"], "design_ref": "DESIGN.md section " + c["design"]},
            "level_note": c["note"],
            "technique": c["technique"],
        })
    na = list(NOT_APPLICABLE)
    claimed = {c["property_id"] for c in checks}
    listed = {n["property_id"] for n in na}
    for pid in props:
        if pid not in claimed and pid not in listed:
            na.append({"property_id": pid, "reason": "not yet claimed: machinery for this property is not built in the committed tree (see DESIGN.md section 3 for the plan)"})
    m = {
        "version": 1,
        "setup_cmd": "./setup.sh",
        "hooks": {
            "guard": "VSOCH_SHROUD_VERIF",
            "enable": "no source hooks are used: observation is by in-process monkey-patching and the JSON dump; the guard name is reserved",
            "baseline_off_cmd": "cd /repo && /venv/bin/python -m pytest -ra -q -p no:cacheprovider --timeout=900 --continue-on-collection-errors",
            "source_commits": [],
            "add_only": True,
        },
        "engines": [
            {"name": "lean-model+correspondence", "path": "lean/", "serves_properties": sorted(claimed),
             "kind_free_text": "Lean 4 models and theorems (lake project ShroudVerif), compiled line-protocol driver, Python correspondence harnesses and implementation-level oracles under tools/"},
        ],
        "checks": checks,
        "notes": "Single entry point ./check <Cnn> --tier quick|thorough. Exit 0 held, 1 violation (VIOLATION line), 2 machinery error/timeout.",
        "not_applicable": na,
    }
    json.dump(m, open(os.path.join(HERE, "MANIFEST.json"), "w"), indent=1)


if __name__ == "__main__":
    main()
