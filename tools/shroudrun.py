"""Run the real Shroud (from /repo's working tree) in-process or in a fresh
process, into scratch directories; corpus configurations from
regression/do-test.py."""
import argparse
import contextlib
import io
import json
import os
import subprocess
import sys

from tools import common

REG = os.path.join(common.REPO, "regression", "input")

# (name, yaml, extra command line) -- mirrors regression/do-test.py availTests
CORPUS = [
    ("none", "none", ["--write-version"]),
    ("tutorial", "tutorial", []),
    ("debugfalse", "tutorial", ["--option", "debug=False"]),
    ("types", "types", []),
    ("classes", "classes", []),
    ("enum-c", "enum", ["--language", "c"]),
    ("enum-cxx", "enum", ["--language", "c++"]),
    ("pointers-c", "pointers", ["--language", "c", "--option", "wrap_python=false"]),
    ("pointers-cxx", "pointers", ["--option", "wrap_python=false", "--option", "literalinclude2=true"]),
    ("pointers-numpy-cxx", "pointers", ["--option", "literalinclude2=true", "--option", "wrap_fortran=false", "--option", "wrap_c=false"]),
    ("pointers-list-cxx", "pointers", ["--option", "PY_array_arg=list", "--option", "wrap_fortran=false", "--option", "wrap_c=false"]),
    ("pointers-numpy-c", "pointers", ["--language", "c", "--option", "PY_array_arg=numpy", "--option", "wrap_fortran=false", "--option", "wrap_c=false"]),
    ("pointers-list-c", "pointers", ["--language", "c", "--option", "PY_array_arg=list", "--option", "wrap_fortran=false", "--option", "wrap_c=false"]),
    ("arrayclass", "arrayclass", []),
    ("struct-c", "struct", ["--language", "c", "--option", "literalinclude2=true", "--option", "wrap_fortran=true", "--option", "wrap_c=true", "--option", "wrap_python=false"]),
    ("struct-cxx", "struct", ["--language", "c++", "--option", "wrap_fortran=true", "--option", "wrap_c=true", "--option", "wrap_python=false"]),
    ("struct-numpy-c", "struct", ["--language", "c", "--option", "wrap_fortran=false", "--option", "wrap_c=false", "--option", "wrap_python=true", "--option", "PY_struct_arg=numpy"]),
    ("struct-numpy-cxx", "struct", ["--language", "c++", "--option", "wrap_fortran=false", "--option", "wrap_c=false", "--option", "wrap_python=true", "--option", "PY_struct_arg=numpy"]),
    ("struct-class-c", "struct", ["--language", "c", "--option", "wrap_fortran=false", "--option", "wrap_c=false", "--option", "wrap_python=true", "--option", "PY_struct_arg=class"]),
    ("struct-class-cxx", "struct", ["--language", "c++", "--option", "wrap_fortran=false", "--option", "wrap_c=false", "--option", "wrap_python=true", "--option", "PY_struct_arg=class"]),
    ("struct-list-cxx", "struct", ["--language", "c++", "--option", "wrap_fortran=false", "--option", "wrap_c=false", "--option", "wrap_python=true", "--option", "PY_struct_arg=list"]),
    ("structlist", "structlist", []),
    ("struct-py-c", "struct-py", ["--language", "c"]),
    ("struct-py-cxx", "struct-py", ["--language", "c++"]),
    ("vectors", "vectors", []),
    ("vectors-numpy", "vectors", ["--option", "PY_array_arg=numpy", "--option", "wrap_python=true", "--option", "wrap_fortran=false", "--option", "wrap_c=false"]),
    ("vectors-list", "vectors", ["--option", "PY_array_arg=list", "--option", "wrap_python=true", "--option", "wrap_fortran=false", "--option", "wrap_c=false"]),
    ("cdesc", "cdesc", []),
    ("forward", "forward", []),
    ("example", "example", []),
    ("include", "include", []),
    ("preprocess", "preprocess", []),
    ("scope", "scope", []),
    ("names", "names", []),
    ("names2", "names2", []),
    ("namespace", "namespace", []),
    ("namespacedoc", "namespacedoc", []),
    ("strings", "strings", []),
    ("strings-cfi", "strings", ["--option", "F_CFI=true"]),
    ("ccomplex", "ccomplex", []),
    ("clibrary", "clibrary", []),
    ("cxxlibrary", "cxxlibrary", []),
    ("interface", "interface", []),
    ("statement", "statement", []),
    ("templates", "templates", []),
    ("ownership", "ownership", []),
    ("generic", "generic", []),
    ("generic-cfi", "generic", ["--option", "F_CFI=true"]),
    ("memdoc", "memdoc", []),
    ("wrap", "wrap", []),
]


def corpus_yaml(name):
    return os.path.join(REG, name + ".yaml")


def make_args(filenames, outdir, logdir=None, options=(), language=None, path=None, write_version=False,
              cfiles="", ffiles="", outdir_c_fortran="", outdir_python="", outdir_lua="", outdir_yaml="", write_helpers=""):
    a = argparse.Namespace()
    a.cmake = ""
    a.cfiles = cfiles
    a.ffiles = ffiles
    a.filename = list(filenames)
    a.logdir = logdir if logdir is not None else outdir
    a.outdir = outdir
    a.outdir_c_fortran = outdir_c_fortran
    a.outdir_lua = outdir_lua
    a.outdir_python = outdir_python
    a.outdir_yaml = outdir_yaml
    a.path = list(path) if path else [REG]
    a.write_helpers = write_helpers
    a.write_statements = ""
    a.yaml_types = ""
    a.write_version = write_version
    a.option = list(options)
    a.language = language
    return a


def parse_cmdline(extra):
    """Turn a do-test style cmdline into (options, language, write_version)."""
    opts, lang, wv = [], None, False
    i = 0
    while i < len(extra):
        if extra[i] == "--option":
            opts.append(extra[i + 1]); i += 2
        elif extra[i] == "--language":
            lang = extra[i + 1]; i += 2
        elif extra[i] == "--write-version":
            wv = True; i += 1
        else:
            i += 1
    return opts, lang, wv


def run_inproc(filenames, outdir, **kw):
    """main_with_args in this process.  Returns (config or None, exception or None, stdout)."""
    from shroud import main as smain
    args = make_args(filenames, outdir, **kw)
    buf = io.StringIO()
    cfg, exc = None, None
    with contextlib.redirect_stdout(buf):
        try:
            cfg = smain.main_with_args(args)
        except BaseException as e:  # SystemExit included
            exc = e
    if cfg is not None:
        try:
            cfg.log.close()
        except Exception:
            pass
    return cfg, exc, buf.getvalue()


def run_corpus_inproc(name, outdir, extra_options=(), **kw):
    for n, y, extra in CORPUS:
        if n == name:
            opts, lang, wv = parse_cmdline(extra)
            opts = ["debug_testsuite=true"] + opts + list(extra_options)
            return run_inproc([corpus_yaml(y)], outdir, options=opts, language=lang, write_version=wv, **kw)
    raise KeyError(name)


def run_fresh(filenames, outdir, cmdline=(), env=None, cwd=None, timeout=300):
    """Fresh interpreter, real command-line parser."""
    e = dict(os.environ)
    e["PYTHONPATH"] = common.REPO
    e["PYTHONDONTWRITEBYTECODE"] = "1"
    if env:
        e.update(env)
    cmd = [sys.executable, "-c", "from shroud.main import main; main()",
           "--outdir", outdir, "--logdir", outdir] + list(cmdline) + list(filenames)
    p = subprocess.run(cmd, stdout=subprocess.PIPE, stderr=subprocess.STDOUT, text=True, env=e, cwd=cwd, timeout=timeout)
    return p.returncode, p.stdout


def read_tree(d, skip_ext=(".log",)):
    """File name -> bytes.  The output directory is part of the command line and is legitimately
    written into some files (setup.py lists source paths): it is replaced by <OUTDIR> so trees
    produced into different scratch directories are comparable."""
    out = {}
    dn = os.path.abspath(d).encode()
    for root, _dirs, files in os.walk(d):
        for f in sorted(files):
            if f.endswith(skip_ext):
                continue
            p = os.path.join(root, f)
            with open(p, "rb") as fh:
                out[os.path.relpath(p, d)] = fh.read().replace(dn, b"<OUTDIR>").replace(d.encode(), b"<OUTDIR>")
    return out


def write_yaml(d, name, text):
    p = os.path.join(d, name)
    with open(p, "w") as f:
        f.write(text)
    return p


def long_fortran_lines(ctx, limit=132):
    """Corpus measurement for C13: non-comment Fortran lines longer than `limit`."""
    over = []
    for name, y, extra in CORPUS:
        d = common.scratch()
        try:
            cfg, exc, _ = run_corpus_inproc(name, d)
            if exc is not None:
                continue
            for fn, data in read_tree(d).items():
                if fn.endswith(".f") or fn.endswith(".f90"):
                    for ln, line in enumerate(data.decode().split("\n"), 1):
                        if len(line) > limit and not line.lstrip().startswith("!"):
                            over.append("%s:%s:%d" % (name, fn, ln))
                            ctx.fail("fortran-line-over-132:%s:%s" % (name, fn),
                                     "non-comment Fortran line longer than 132 columns in %s/%s line %d" % (name, fn, ln),
                                     {"corpus": name, "file": fn, "line": ln})
            ctx.count(1)
        finally:
            common.rmtree(d)
    return over
